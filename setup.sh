#!/bin/sh
# builds the SSA front end from the module cache (offline)
set -e
cd "$(dirname "$0")/frontend"
export GOFLAGS=-mod=mod GOPROXY=off GOSUMDB=off GOTOOLCHAIN=local
mkdir -p ../bin
go build -o ../bin/ssa2json .
