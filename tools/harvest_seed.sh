#!/bin/sh
# usage: tools/harvest_seed.sh <worktree> <seed id>   (copies patch/demo/meta out of a sub-agent's worktree and removes it)
set -eu
WT="$1"; ID="$2"
D=/verif/seeded/$ID
mkdir -p "$D"
( cd "$WT" && git diff -- . ':(exclude)zz_seed_demo_test.go' ':(exclude)seed_meta.json' ) > "$D/patch.diff"
cp "$WT/zz_seed_demo_test.go" "$D/demo_test.go"
python3 - "$WT/seed_meta.json" "$D/meta.json" "$ID" <<'PY'
import json,sys
m=json.load(open(sys.argv[1])); m['id']=sys.argv[3]
json.dump(m,open(sys.argv[2],'w'),indent=1)
PY
git -C /repo worktree remove --force "$WT"
echo "harvested $ID: $(wc -l < $D/patch.diff) diff lines"
