#!/bin/sh
# usage: tools/try_seed.sh <seed_dir> <property> [tier]
# 1. confirms the seeded change in a scratch worktree (compiles, suite still passes except the baseline
#    failure, demo fails with / passes without the change), 2. runs the check against that worktree
#    (VERIF_REPO; evidence/replays go to a scratch directory, /repo is never touched), 3. removes the worktree.
# SKIP_CONFIRM=1 skips step 1.
set -u
SEED="$(cd "$1" && pwd)"; PROP="$2"; TIER="${3:-quick}"
export GOFLAGS=-mod=mod GOPROXY=off GOSUMDB=off GOTOOLCHAIN=local
WT=$(mktemp -d /tmp/seedwt_XXXX)
OUT=$(mktemp -d /tmp/seedout_XXXX)
rmdir "$WT"
git -C /repo worktree add -q "$WT" HEAD || exit 2
trap 'git -C /repo worktree remove --force "$WT" >/dev/null 2>&1; rm -rf "$OUT"' EXIT
if [ -z "${SKIP_CONFIRM:-}" ]; then
cp "$SEED/demo_test.go" "$WT/zz_seed_demo_test.go"
( cd "$WT" && go test -vet=off -count=1 -run 'TestSeedDemo$' . >"$OUT/base.log" 2>&1 ); BASE=$?
fi
( cd "$WT" && git apply "$SEED/patch.diff" ) || { echo "patch does not apply"; exit 2; }
if [ -z "${SKIP_CONFIRM:-}" ]; then
( cd "$WT" && go build ./... ) || { echo "does not build"; exit 2; }
( cd "$WT" && go test -vet=off -count=1 -run 'TestSeedDemo$' . >"$OUT/mut.log" 2>&1 ); MUT=$?
rm -f "$WT/zz_seed_demo_test.go"
FAILS=$( cd "$WT" && go test -vet=off -count=1 ./... 2>&1 | grep -- '^--- FAIL' | tr '\n' ' ' )
echo "demo on base: exit $BASE (want 0); demo with change: exit $MUT (want !=0); suite failures with change: $FAILS"
fi
( cd /verif && VERIF_REPO="$WT" VERIF_OUT="$OUT" ./check "$PROP" "$TIER" ) > "$OUT/check.log" 2>&1; RC=$?
grep -v '^WARNING' "$OUT/check.log" | grep -v 'slow job' | head -12 | cut -c1-300
echo "check exit code: $RC"
