#!/usr/bin/env python3
"""Regenerates MANIFEST.json from the claim table below (kept in one place)."""
import json

TECH = "bounded symbolic execution of go/ssa to SMT-LIB (Int), decided by cvc5/z3, counterexamples replayed natively"
TRUST = ("Trusted: go/ssa construction, the SSA->SMT encoder in /verif/engine (validated on every run against the native build on "
         "random concrete inputs; sat models are only reported after native replay), cvc5/z3. ")
CLAIMS = {
    'C01': dict(ref='DESIGN.md §2, §3 C01',
                text="Bounded symbolic model checking of the real AddWithMode/SubWithMode/add code: per exponent gap (concrete) both coefficients, signs, cohort members, the smaller exponent and the mode are symbolic; the call to the rounding kernel is cut and the harness proves the kernel receives exactly the infinitely precise sum (sticky convention) under its precondition P; the kernel (reduce128/192 + round) is proved separately against the rounding specification per magnitude class / subnormal depth / overflow excess. unsat = holds for every input of the configuration.",
                note=TRUST + "Assume-guarantee composition at the rounding kernel (contract R, precondition P proved at every call site). int.go kernels are replaced by contracts that are re-proved from source each run. Quick tier: gaps |g|<=20 sample + far regions + sampled kernel classes; thorough: all gaps -74..74 and all classes."),
    'C04': dict(ref='DESIGN.md §3 C04',
                text="Bounded symbolic model checking of Cmp, CmpAbs, Equal, Compare, Min, Max, IsZero, Sign and the CmpResult predicates: every exponent gap -36..36 and both far regions, both full 128-bit patterns symbolic, all special class pairs; oracle = exact integer comparison of the denoted values.",
                note=TRUST + "Antisymmetry/transitivity are corollaries of agreement with the exact order."),
    'C08': dict(ref='DESIGN.md §3 C08',
                text="Bounded symbolic model checking of Decimal.Round/Ceil/Floor and the package functions: digits dropped k (concrete) x quantum-exponent class, coefficient/exponent/sign/mode symbolic, dp ranges over all of int64; oracle = exact quantisation specification incl. quanta above the largest exponent and int overflow of dp.",
                note=TRUST + "Quick tier samples (k, overflow-class) pairs with the boundary ones always included; thorough runs all."),
    'C11': dict(ref='DESIGN.md §3 C11',
                text="Bounded symbolic model checking of New, Ldexp and Frexp: every int64 coefficient / 128-bit pattern and every int exponent (three regions of the resulting exponent), DefaultRoundingMode symbolic; the rounding kernel is cut: the harness proves the kernel receives exactly sig x 10^exp (frac x 10^exp), that the early zero/infinity exits are taken only where the correctly rounded result is zero/infinite, and Frexp's exact decomposition with 0.1 <= |frac| < 1; reduce64/reduce128 are proved against the rounding specification.",
                note=TRUST + "Assume-guarantee at the rounding kernel. Rounding follows DefaultRoundingMode (nearest-even by default; all six values are checked)."),
    'C12': dict(ref='DESIGN.md §3 C12',
                text="Bounded symbolic model checking of the real MarshalBinary/UnmarshalBinary/decompose code: all 2^128 bit patterns are two symbolic words, every byte-slice length 0..64 has all bytes symbolic; an independent BID decoder is the oracle.",
                note=TRUST + "errors.New is an opaque non-nil value. Slices longer than 64 bytes are outside the bound."),
}
CLAIMS['C19'] = dict(ref='DESIGN.md §3 C19',
                     text="Bounded symbolic model checking of Canonical on every 128-bit pattern (loops fully unrolled): same value and sign, the unique cohort member whose exponent is closest to zero, NaN payload and Inf garbage stripped, idempotent. Encoding independence of Add/Sub, comparisons, Round/Ceil/Floor, New/Ldexp/Frexp is discharged by the value-level oracles of C01/C04/C08/C11, whose operands range over all cohort members.",
                     note=TRUST + "Encoding independence of formatting, conversions and the transcendental functions is not covered by this check.")
CLAIMS['C02'] = dict(ref='DESIGN.md Part A (A.2, A.6)',
                     text="Bounded symbolic model checking of MulWithMode and QuoWithMode. Mul (both 128-bit finite patterns and the mode symbolic): the exact product (up to 226 bits) reaches reduce128/reduce256 unchanged with the summed exponent, XOR sign and no sticky flag; zero products; Mul/Quo equal the WithMode forms under every DefaultRoundingMode. Quo: every pre-scaling path of the dividend is exact (sig*o + rem == D*10^k at the loop header, real operands); both digit-generation loops (64-bit fast path and 128-bit path) are cut by one-step induction: from an arbitrary state satisfying sig*o + rem == X*10^k, rem < o (all loop-carried variables and the divisor fresh) one execution of the real loop body re-establishes the invariant or leaves the loop, and at every exit the rounding kernel receives floor(exact quotient) with the sticky flag set exactly when the division is inexact, under the kernel's precondition; plus a time-boxed bounded unrolling with the real operands. reduce128/reduce256 are proved against the rounding specification (normal, subnormal, flush, overflow).",
                     note=TRUST + "Assume-guarantee at the rounding kernel. For Quo the solver decides base case, inductive step and exit condition; the induction itself and the algebraic step from the invariant to 'exact quotient' are argued in DESIGN.md, not solved; the loop variable exp is assumed within 80 of its start (a consequence of the hypothesis). uint128.div is replaced by its mathematical contract (q = n div o, r = n mod o) WITHOUT a proved lemma (the Knuth-style body stays undecided at 60 s): a defect inside uint128.div itself is outside this check. A failing inductive step that no real-operand path reproduces is reported as inconclusive, not as a violation.")
CLAIMS['C15'] = dict(ref='DESIGN.md §3 C15',
                     text="Bounded symbolic model checking of special-operand behaviour: Add/Sub/Mul/Quo/QuoRem on all operand class pairs with a NaN/Inf/zero operand, ten elementary functions on NaN/Inf/zero/invalid arguments, NaN propagation, payload and Payload.String of created NaNs, and the classification predicates on all 2^128 patterns; every bit inside a class is symbolic; expected result classes are produced at check time by the float64 operations of the installed toolchain.",
                     note=TRUST + "Reference = float64 semantics of the installed Go toolchain. One open known finding (Expm1(-0), pinned by the repository's own vectors) is listed in known_findings.json. The math.Pow table is not part of this check.")
CLAIMS['C10'] = dict(ref='DESIGN.md §3 C10',
                     text="Bounded symbolic model checking of Int64/Int32/Uint64/Uint32 (per concrete exponent, coefficient and sign symbolic, plus the two far regions), FromInt64/32/Uint64/32, Decimal.Int (nil and reused *big.Int), Decimal.Rat and FromInt (integers up to 200 bits quick / 300 bits thorough, rounding kernel cut): oracle = exact truncation/saturation/value specification over mathematical integers.",
                     note=TRUST + "math/big is replaced by an exact-integer model with the documented semantics (listed in the evidence); FromRat and FromInt beyond 300 bits are outside the bound.")
CLAIMS['C14'] = dict(ref='DESIGN.md §3 C14',
                     text="Bounded symbolic model checking of Decompose (Inf, NaN and finite patterns with coefficients up to 13 significant bytes, five caller-buffer shapes, real Compose applied to its output) and Compose (every coefficient byte string up to 5 bytes quick / 10 bytes thorough with all bytes symbolic, both signs, every int32 exponent, all forms): succeeds exactly when sign*coefficient*10^exp is representable (finite disjunction over the exponent shift), never rounds, leaves the receiver alone on error.",
                     note=TRUST + "Coefficients longer than the stated byte bound (uint256 and big.Int paths) are outside the claim.")
CLAIMS['C05'] = dict(ref='DESIGN.md §3 C05, Part A',
                     text="Bounded symbolic model checking of Parse / UnmarshalText / Scan / MustParse: every byte string up to 5 bytes (4 for UnmarshalText and Scan, 3 for MustParse) with all bytes symbolic against an independent recogniser of the documented syntax, plus digit-heavy literals (up to 45 symbolic digits, decimal point at several positions, optional 4-digit symbolic exponent) that cross the 19-digit and 38/39-digit accumulator switches; the rounding kernel is cut and the harness proves that the literal's exact value (sticky convention) reaches it, that early zero/overflow exits are only taken where they are correct, and the error classes (ErrSyntax / ErrRange).",
                     note=TRUST + "Bounded string length (longer literals are outside; the property mentions >65k digits). fmt.ScanState is a stub following the interface documentation; strconv.ErrSyntax/ErrRange are opaque distinct values and errors.Is is identity-or-Is-method.")
CLAIMS['C20'] = dict(ref='DESIGN.md §3 C20, Part A',
                     text="Totality and purity by bounded symbolic execution: for the entry points listed in the evidence (classification, comparisons, Round/Ceil/Floor regions, New/Ldexp/Frexp, binary form, integer conversions, far-gap Add/Sub, Mul, short Parse/Compose inputs, the rounding kernels) every panic / out-of-range index / nil dereference site is a proof obligation (path condition must be unsat) except the documented panics, which are checked to occur exactly as documented; any store to a package variable by library code fails the check.",
                     note=TRUST + "Only the listed entry points and argument regions are covered; transcendental functions, division loops, formatting and float conversions are outside. Interleavings are not explored: data-race freedom is argued from the absence of shared writes, not model checked.")
CLAIMS['C13'] = dict(ref='DESIGN.md Part A',
                     text="Bounded symbolic model checking of both halves. Decoding: UnmarshalJSON on every byte string up to 5 bytes (7 thorough): null/empty leave the receiver untouched, every RFC 8259 number gets exactly the value the text denotes (independent JSON-number recogniser; rounding kernel cut), every other input is an *json.UnmarshalTypeError with the receiver untouched or a lenient numeral form with exactly the denoted value. Encoding: MarshalJSON on every finite Decimal per (digit count, trailing zeros) class of the coefficient x class of the leading digit's decimal exponent (coefficient, sign, exponent inside a class symbolic): the bytes are accepted by an independent RFC 8259 recogniser, denote the value exactly with its sign and no superfluous digits, follow the -6/20 form thresholds, and the real UnmarshalJSON returns the same value; NaN/Inf give *json.UnsupportedValueError.",
                     note=TRUST + "encoding/json is replaced by its documented contract (it calls MarshalJSON and hands UnmarshalJSON the raw token); Decimal.digits is replaced by a contract re-proved against the real body on every run; quick samples the (digits, zeros) classes (boundary ones always), thorough runs all 630.")
CLAIMS['C06'] = dict(ref='DESIGN.md Part A',
                     text="Bounded symbolic model checking of the default text output: MarshalText, String, Append/Format with precision -1 (e, E, f, g, G), Decimal.Append(\"v\") and Decimal.Format(State, 'v') on every finite Decimal per (digit count L, trailing zeros z) class of the coefficient x class of the leading digit's decimal exponent (coefficient, sign and the exponent inside a class symbolic). An independent numeral reader applied to the produced bytes proves: exactly d's value and sign, no superfluous digits, positional/exponent form thresholds, exponent layout (sign, at least two digits); the real UnmarshalText / Parse / Scan applied to the bytes returns a Decimal with the same value and sign; zeros of any exponent, NaN, +Inf, -Inf.",
                     note=TRUST + "Decimal.digits is replaced by its contract over mathematical integers, which is proved equal to the real body per (L,z) class on every run. fmt.State and fmt.ScanState are small stubs following the interface documentation (the real fmt package is not executed). 'f' with precision -1 only for leading-digit exponents -8..21. Quick samples (L,z) classes; thorough runs all 630.")
CLAIMS['C07'] = dict(ref='DESIGN.md Part A',
                     text="Bounded symbolic model checking of formatting with a precision: Decimal.Format (stub fmt.State), Decimal.Append(spec) and package-level Append for verbs e,E,f,F,g,G per configuration (verb, precision, coefficient class (digit count, trailing zeros), leading-digit exponent, flag set, width all concrete; coefficient and sign symbolic). An independent numeral reader applied to the produced bytes proves the digits are the exact value rounded half-to-even at the position the precision selects (oracle over mathematical integers, including carries and ties), the fraction-digit count, the g/G form rule and trailing-zero stripping, '#', '+' and ' '; padding is compared with an independent model of the fmt width / '-' / '0' rules; Decimal.Append(spec) == Decimal.Format with the same flags; package Append == the flag-less verb.",
                     note=TRUST + "The real fmt package is not executed (stub fmt.State that can report every flag combination, as fmt of go1.23+ does for '-' with '0'); Decimal.digits is replaced by a contract re-proved per run. The configuration space is sampled (boundary configurations always; 1000 quick / 40000 thorough); widths <= 45, precisions <= 40, f/F for leading-digit exponents -8..21.")
CLAIMS['C18'] = dict(ref='DESIGN.md Part A',
                     text="Special-case / shortcut ladder of PowWithMode only: all 11 x 13 operand class pairs (every bit inside a class and the mode symbolic) against math.Pow of the installed toolchain, y=0 -> 1, x=1 -> 1, y=1 -> x bit-identical, y=-1 -> the mode-rounded reciprocal, NaN propagation, negative base with non-integer exponent -> NaN with the Pow payload, and powers of ten raised to integers (the exact power reaches the rounding kernel, or Inf / zero beyond the range). Any path that reaches the general algorithm (decomposed192.log) ends there and nothing is claimed about it.",
                     note=TRUST + "The accuracy half of the property (general path) is outside, for the C16 reason. QuoWithMode is an uninterpreted function here. Integer / half-integer exponents are taken in their exponent-0 / -1 encodings; the +-0.5 shortcut and Pow == PowWithMode(DefaultRoundingMode) are not checked.")
NA = {
    'C16': "accuracy of the exp/log series is numerical analysis over iterated 192-bit mul/div with data-dependent loops; no bounded solver query decides a one-ulp error bound (DESIGN.md §5)",
    'C17': "convergence of the fixed-count Heron/Halley iterations with symbolic 192-bit division is not expressible as a decidable bounded query (DESIGN.md §5)",
}
NA.update({
    'C03': "not built: QuoRem has three data-dependent loops (quotient digits, overflow drop, remainder continuation; hundreds of iterations for large exponent gaps). The loop-cut / one-step-induction support built for QuoWithMode (DESIGN.md A.6) is the applicable mechanism, but the invariants and hook harness for QuoRem's loops (which also track separate quotient and remainder exponents) were not written in the available time; bounded unrolling alone does not reach the property's quantifier. The special-operand table of QuoRem is checked under C15.",
    'C09': "not built: Float64/Float32/Float need an integer model of binary floating-point rounding (float64(uint64), math.Ldexp, big.Float) in the executor, which does not exist; only FromFloat64's exact region (no div10 truncation, binary exponents up to about 2^245 and down to about 2^-86) would be a per-exponent linear-arithmetic query, and claiming the property on that fragment alone would misstate the coverage",
    'C18': "not built: only the special-case ladder would be within reach (the general path is log/mul/exp arithmetic, see C16); the ladder harness was not completed in the available time",
})
PENDING = "not built in this session"


def main():
    props = [json.loads(l) for l in open('/verif/properties.jsonl')]
    checks = []
    for pid in sorted(CLAIMS):
        c = CLAIMS[pid]
        checks.append({"property_id": pid, "quick_cmd": "./check %s quick" % pid, "thorough_cmd": "./check %s thorough" % pid,
                       "evidence_file": "/verif/evidence/%s.json" % pid,
                       "replay_cmd_template": "python3-vt /verif/engine/check.py --replay {path}", "engine": "ssa-smt",
                       "level_claimed": {"category": "model_checking", "text": c['text'], "design_ref": c['ref']},
                       "level_note": c['note'], "technique": TECH})
    na = []
    for p in props:
        if p['id'] not in CLAIMS:
            na.append({"property_id": p['id'], "reason": NA.get(p['id'], PENDING)})
    m = {"version": 1, "setup_cmd": "sh ./setup.sh",
         "hooks": {"guard": "verif", "enable": "harness files are injected with go/packages Overlay and `go test -overlay` (no hook source changes in /repo); -tags=verif is passed",
                   "baseline_off_cmd": "cd /repo && go test -vet=off -count=1 ./...", "source_commits": [], "add_only": True},
         "engines": [{"name": "ssa-smt", "path": "/verif/engine", "serves_properties": sorted(CLAIMS),
                      "kind_free_text": "own go/ssa -> SMT-LIB2 symbolic executor (frontend/ in Go, engine/ in Python), portfolio cvc5 1.0.3 + z3 5.1.0, native replay via go test -overlay"}],
         "checks": checks, "not_applicable": na, "notes": "see DESIGN.md; known_findings.json lists repaired defects"}
    json.dump(m, open('/verif/MANIFEST.json', 'w'), indent=1)


if __name__ == '__main__':
    main()
