#!/bin/sh
# runs every registered quick check sequentially; prints one summary line per property
cd /verif
for p in ${*:-C01 C02 C04 C05 C06 C08 C10 C11 C12 C13 C14 C15 C18 C19 C20}; do
  s=$(date +%s)
  ./check $p quick > /tmp/q_$p.log 2>&1; rc=$?
  e=$(date +%s)
  echo "$p rc=$rc $((e-s))s $(grep -v WARNING /tmp/q_$p.log | grep -c 'UNDECIDED\|ERROR\|MISMATCH\|VIOLATION\|INCONCLUSIVE') issues :: $(grep "^$p tier" /tmp/q_$p.log | cut -c1-200)"
done
