"""Solver back ends: in-process z3 (quick feasibility during exploration) and a subprocess
portfolio cvc5 || z3-new (|| z3 4.8.12 for cross-checks) for proof obligations."""
import os
import re
import subprocess
import tempfile
import threading
import time

import terms as T

STATS = {'inproc_calls': 0, 'inproc_time': 0.0, 'portfolio_calls': 0, 'portfolio_time': 0.0,
         'by_solver': {}, 'solver_time': {}}

_z3 = None


def z3mod():
    global _z3
    if _z3 is None:
        import z3
        _z3 = z3
    return _z3


def quick_check(assertions, timeout_ms=1500, want_model=False):
    """returns ('sat'|'unsat'|'unknown', model|None) using in-process z3"""
    z3 = z3mod()
    text, em = T.to_smt(assertions, want_model=False)
    text = text.replace('(check-sat)', '')
    t0 = time.time()
    s = z3.Solver()
    s.set('timeout', timeout_ms)
    try:
        s.from_string(text)
        r = s.check()
    except z3.Z3Exception:
        return 'unknown', None
    finally:
        STATS['inproc_calls'] += 1
        STATS['inproc_time'] += time.time() - t0
    rs = str(r)
    if rs == 'sat':
        if not want_model:
            return 'sat', None
        m = s.model()
        model = {}
        for name, (sort, _, _) in em.vars.items():
            c = z3.Int('i_' + name) if sort == 'Int' else z3.Bool('i_' + name)
            v = m.eval(c, model_completion=True)
            try:
                if sort == 'Int':
                    model[name] = v.as_long()
                else:
                    model[name] = z3.is_true(v)
            except Exception:
                pass
        return 'sat', model
    return rs, None


SOLVERS = {
    'cvc5': lambda f, to: ['cvc5', '--produce-models', '--tlimit=%d' % (to * 1000), f],
    'z3-new': lambda f, to: ['z3-new', '-T:%d' % to, f],
    'z3': lambda f, to: ['z3', '-T:%d' % to, f],
}

_val_re = re.compile(r'\(\s*\|?([^\s|()]+)\|?\s+(\(-\s*\d+\)|-?\d+|true|false)\s*\)')


def parse_model(out):
    model = {}
    for m in _val_re.finditer(out):
        v = m.group(2)
        nm = m.group(1)
        if nm.startswith('i_'):
            nm = nm[2:]
        if v == 'true':
            model[nm] = True
        elif v == 'false':
            model[nm] = False
        else:
            v = v.replace('(', '').replace(')', '').replace(' ', '')
            model[nm] = int(v)
    return model


def _run_one(name, path, timeout, result, procs, lock):
    cmd = SOLVERS[name](path, timeout)
    t0 = time.time()
    try:
        p = subprocess.Popen(cmd, stdout=subprocess.PIPE, stderr=subprocess.STDOUT, text=True)
    except OSError as e:
        result[name] = ('error', str(e), 0.0)
        return
    with lock:
        procs[name] = p
    try:
        out, _ = p.communicate(timeout=timeout + 5)
    except subprocess.TimeoutExpired:
        p.kill()
        out, _ = p.communicate()
        out = 'timeout\n' + (out or '')
    dt = time.time() - t0
    verdict = 'unknown'
    seen_err = False
    for line in out.split('\n'):
        ls = line.strip()
        if ls in ('sat', 'unsat'):
            verdict = 'error' if seen_err else ls
            break
        if ls in ('unknown', 'timeout'):
            verdict = 'unknown'
            break
        if ls.startswith('(error'):
            # an error before the check-sat answer: the solver may have dropped an assertion
            seen_err = True
    if seen_err and verdict == 'unknown':
        verdict = 'error'
    result[name] = (verdict, out, dt)


def portfolio(text, var_names, timeout=60, solvers=('cvc5', 'z3-new'), keep=None, want_all=False):
    """Run the solvers concurrently on the same SMT-LIB text; the first definitive answer wins
    (unless want_all, used for cross-checking).  Returns dict(verdict, model, solver, times)."""
    full = text
    if var_names:
        full += '\n(get-value (%s))' % ' '.join('|i_%s|' % v for v in var_names)
    full += '\n'
    if keep:
        path = keep
        with open(path, 'w') as f:
            f.write(full)
    else:
        fd, path = tempfile.mkstemp(suffix='.smt2', prefix='vq_', dir=os.environ.get('VERIF_TMP', '/dev/shm'))
        with os.fdopen(fd, 'w') as f:
            f.write(full)
    t0 = time.time()
    result, procs, lock = {}, {}, threading.Lock()
    threads = []
    for s in solvers:
        th = threading.Thread(target=_run_one, args=(s, path, timeout, result, procs, lock))
        th.start()
        threads.append(th)
    winner = None
    while True:
        alive = [th for th in threads if th.is_alive()]
        for s in solvers:
            if s in result and result[s][0] in ('sat', 'unsat') and winner is None:
                winner = s
        if winner and not want_all:
            with lock:
                for s, p in procs.items():
                    if s != winner and p.poll() is None:
                        try:
                            p.kill()
                        except OSError:
                            pass
            break
        if not alive:
            break
        time.sleep(0.005)
    for th in threads:
        th.join()
    dt = time.time() - t0
    STATS['portfolio_calls'] += 1
    STATS['portfolio_time'] += dt
    if not keep:
        try:
            os.unlink(path)
        except OSError:
            pass
    times = {s: round(result[s][2], 3) for s in result}
    verdicts = {s: result[s][0] for s in result}
    if winner is None:
        return {'verdict': 'unknown', 'model': None, 'solver': None, 'times': times, 'verdicts': verdicts,
                'wall': dt, 'outputs': {s: result[s][1][:300] for s in result}}
    STATS['by_solver'][winner] = STATS['by_solver'].get(winner, 0) + 1
    STATS['solver_time'][winner] = STATS['solver_time'].get(winner, 0.0) + result[winner][2]
    v, out, _ = result[winner]
    model = parse_model(out) if v == 'sat' else None
    # disagreement between definitive answers = inconclusive
    defin = set(x for x in verdicts.values() if x in ('sat', 'unsat'))
    if len(defin) > 1:
        return {'verdict': 'disagree', 'model': model, 'solver': winner, 'times': times, 'verdicts': verdicts, 'wall': dt}
    return {'verdict': v, 'model': model, 'solver': winner, 'times': times, 'verdicts': verdicts, 'wall': dt}
