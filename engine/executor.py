"""Symbolic executor for go/ssa (JSON) -> SMT obligations.

Fork control, merge data: a symbolic `If` whose region up to its immediate post-dominator is
loop free is executed on both arms and the arriving states are merged with ite (unless a
"control integer" would be merged: two values that differ by a non-zero constant); all other
symbolic branches fork.  Proof obligations are (path condition AND NOT check-condition) and
(path condition at a panic site); they are sent to the solver portfolio.
"""
import sys
import time

import terms as T
import solver as S
from program import Program

sys.setrecursionlimit(200000)

W64 = 1 << 64


class Ptr:
    __slots__ = ('oid', 'path')

    def __init__(self, oid, path=()):
        self.oid = oid
        self.path = path

    def __repr__(self):
        return 'Ptr(%r,%r)' % (self.oid, self.path)


class Slice:
    __slots__ = ('oid', 'base', 'off', 'len', 'cap')

    def __init__(self, oid, base, off, ln, cap):
        self.oid, self.base, self.off, self.len, self.cap = oid, base, off, ln, cap

    def __repr__(self):
        return 'Slice(%r,%r,%r,%r,%r)' % (self.oid, self.base, self.off, self.len, self.cap)


class Str:
    __slots__ = ('b',)

    def __init__(self, b):
        self.b = tuple(b)

    def __repr__(self):
        if all(isinstance(x, int) for x in self.b):
            return 'Str(%r)' % bytes(self.b)
        return 'Str(<%d sym bytes>)' % len(self.b)


class Iface:
    __slots__ = ('tid', 'val')

    def __init__(self, tid, val):
        self.tid, self.val = tid, val

    def __repr__(self):
        return 'Iface(%r,%r)' % (self.tid, self.val)


class Closure:
    __slots__ = ('fn', 'binds')

    def __init__(self, fn, binds=()):
        self.fn, self.binds = fn, tuple(binds)


class Opaque:
    """value of a stubbed call whose content is irrelevant (error messages etc.)"""
    __slots__ = ('what',)

    def __init__(self, what):
        self.what = what

    def __repr__(self):
        return 'Opaque(%s)' % self.what


class Fork(Exception):
    def __init__(self, cond):
        self.cond = cond


class ForkValues(Exception):
    def __init__(self, term, values=None):
        self.term = term
        self.values = values


class PathEnd(Exception):
    def __init__(self, kind, msg=''):
        self.kind = kind
        self.msg = msg


class GoPanic(Exception):
    def __init__(self, msg):
        self.msg = msg


class Unsupported(Exception):
    pass


class Frame:
    __slots__ = ('fn', 'block', 'prev', 'ip', 'locals', 'ret', 'catch', 'visits', 'defers', 'cutcount', 'cut_armed', 'cut_pending')

    def __init__(self, fn):
        self.fn = fn
        self.block = 0
        self.prev = -1
        self.ip = 0
        self.locals = {}
        self.ret = None
        self.catch = False
        self.visits = {}
        self.defers = []
        self.cutcount = None
        self.cut_armed = None
        self.cut_pending = None

    def copy(self):
        f = Frame(self.fn)
        f.block, f.prev, f.ip = self.block, self.prev, self.ip
        f.locals = dict(self.locals)
        f.ret, f.catch = self.ret, self.catch
        f.visits = dict(self.visits)
        f.defers = list(self.defers)
        f.cutcount = dict(self.cutcount) if self.cutcount else None
        f.cut_armed = self.cut_armed
        f.cut_pending = self.cut_pending
        return f


class State:
    __slots__ = ('frames', 'mem', 'pc', 'pcset', 'refine', 'noid', 'ndc', 'just_entered', 'inputs', 'bound',
                 'result', 'trace', 'ghost', 'just_returned', 'last_ret')

    def __init__(self):
        self.frames = []
        self.mem = {}
        self.pc = []
        self.pcset = set()
        self.refine = {}
        self.noid = 1
        self.ndc = {}
        self.just_entered = False
        self.inputs = {}
        self.bound = 600
        self.result = None
        self.trace = ()
        self.ghost = {}
        self.just_returned = False
        self.last_ret = None

    def copy(self):
        s = State()
        s.frames = [f.copy() for f in self.frames]
        s.mem = dict(self.mem)
        s.pc = list(self.pc)
        s.pcset = set(self.pcset)
        s.refine = dict(self.refine)
        s.noid = self.noid
        s.ndc = dict(self.ndc)
        s.just_entered = self.just_entered
        s.inputs = dict(self.inputs)
        s.bound = self.bound
        s.trace = self.trace
        s.ghost = dict(self.ghost)
        s.just_returned = self.just_returned
        s.last_ret = self.last_ret
        return s


def is_sym(v):
    return isinstance(v, (T.Lin, T.B))


class Executor:
    def __init__(self, prog, opts=None):
        self.prog = prog
        self.opts = opts or {}
        self.pkg = prog.pkg + '.'
        self.obligations = []
        self.paths = 0
        self.ended = {}
        self.trivial_checks = 0
        self.merges = 0
        self.forks = 0
        self.reach = {}
        self.summaries = {}     # callee name -> summary function name (Go, in harness)
        self.cuts = {}          # callee name -> python callable(executor, state, args) -> result
        self.used_summaries = set()
        self.encoded = set()
        self.query_cache = {}
        self.timeout = self.opts.get('timeout', 60)
        self.quick_ms = self.opts.get('quick_ms', 300)
        self.solvers = self.opts.get('solvers', ('cvc5', 'z3-new'))
        self.purity_violations = []
        self.fork_sites = {}
        self._cheap = {}
        self.compose_hook = self.opts.get('compose_hook', True)
        dm = '(%s.Decimal).' % prog.pkg
        self.compose_readers = {dm + 'decompose': 'decompose', dm + 'Signbit': 'neg', dm + 'isSpecial': 'false',
                                dm + 'IsNaN': 'false', dm + 'isInf': 'false', dm + 'IsZero': 'zero'}
        self.fork_in = set(self.opts.get('fork_in', ('(%s.Decimal).decompose' % prog.pkg,)))
        self.global_reads = set()
        self.stop_on_violation = self.opts.get('stop_on_violation', True)
        self.violated = False
        self.insn_count = 0
        self.max_insns = self.opts.get('max_insns', 30_000_000)
        self.deadline = None
        self.concrete_inputs = None
        self.observed = None
        self.concrete_failures = []
        from intrinsics import INTRINSICS
        import cuts  # noqa: registers the cut accessors
        self.intr = INTRINSICS
        self.base_mem = None
        self.loopcuts = {}
        self.cut_started = set()
        self._resolve_loopcuts()
        self._init_globals()

    # ------------------------------------------------------------ types / zero values
    def kind(self, tid):
        return self.prog.types[tid]['k']

    def zero(self, tid):
        t = self.prog.types[tid]
        k = t['k']
        if t.get('named') == 'Z' and t.get('pkg') == self.prog.pkg:
            return 0
        if k == 'int':
            return 0
        if k == 'bool':
            return False
        if k == 'string':
            return Str(())
        if k == 'float':
            return 0.0
        if k == 'struct':
            return [self.zero(f['t']) for f in (t['fields'] or [])]
        if k == 'array':
            n = t['len']
            z = self.zero(t['elem'])
            if isinstance(z, list):
                return [self.zero(t['elem']) for _ in range(n)]
            return [z] * n
        return None

    def int_type(self, tid):
        t = self.prog.types[tid]
        return t['bits'], t['signed']

    # ------------------------------------------------------------ globals
    def _init_globals(self):
        st = State()
        for g, tid in self.prog.globals.items():
            st.mem[g] = self.zero(tid)
        init = self.prog.funcs.get(self.pkg + 'init')
        if init is not None and init.blocks:
            T.set_ctx(st.refine)
            fr = Frame(init)
            st.frames.append(fr)
            self.in_init = True
            try:
                self._run_concrete(st)
            finally:
                self.in_init = False
        self.base_mem = st.mem
        self.base_noid = st.noid

    def _run_concrete(self, st):
        while st.frames:
            r = self.step(st, None)
            if r is not None:
                if r == 'done':
                    break
                raise Unsupported('fork during init')


    # ------------------------------------------------------------ loop cuts (one-step induction, DESIGN.md Part A)
    def _resolve_loopcuts(self):
        """opts['loopcuts']: list of {'fn': 'Decimal.QuoWithMode', 'phis': [...names of the header's phi nodes...],
        'allocs': [...named local arrays written in the loop...], 'args': [...names...], 'hook': harness function}.
        The header is found by the source-level names of its phi nodes, not by block numbers."""
        for spec in self.opts.get('loopcuts', ()) or ():
            recv, meth = spec['fn'].split('.')
            fname = '(%s.%s).%s' % (self.prog.pkg, recv, meth)
            fn = self.prog.funcs.get(fname)
            if fn is None:
                raise Unsupported('loop cut: no function ' + fname)
            want = sorted(spec['phis'])
            cands = []
            for bi, b in enumerate(fn.blocks):
                if b.get('comment') != 'for.loop':
                    continue
                names = sorted(i.get('comment') or '' for i in b['instrs'][:fn.nphis[bi]])
                if names == want:
                    cands.append(bi)
            if not cands:
                raise Unsupported('loop cut: no loop header with phis %s in %s' % (want, fname))

            nb = len(fn.blocks)
            dom = [set(range(nb)) for _ in range(nb)]
            dom[0] = {0}
            changed = True
            while changed:
                changed = False
                for bi in range(1, nb):
                    ps = fn.blocks[bi]['preds']
                    new = None
                    for q in ps:
                        new = set(dom[q]) if new is None else (new & dom[q])
                    new = (new or set()) | {bi}
                    if new != dom[bi]:
                        dom[bi] = new
                        changed = True

            def natural(h):
                # natural loop of h: h plus everything that reaches a back-edge source (a predecessor dominated by h)
                # without passing through h
                body = {h}
                stack = [q for q in fn.blocks[h]['preds'] if h in dom[q]]
                while stack:
                    x = stack.pop()
                    if x in body:
                        continue
                    body.add(x)
                    stack.extend(fn.blocks[x]['preds'])
                return body
            # several loops may carry the same variable names (an inner loop): the outermost one is meant
            cands.sort(key=lambda c: -len(natural(c)))
            if len(cands) > 1 and len(natural(cands[0])) == len(natural(cands[1])):
                raise Unsupported('loop cut: ambiguous header with phis %s in %s' % (want, fname))
            h = cands[0]
            body = natural(h)
            allocs = {}
            for b in fn.blocks:
                for i in b['instrs']:
                    if i['op'] == 'Alloc' and i.get('comment'):
                        allocs.setdefault(i['comment'], i)
            params = {p['n']: p for p in fn.params}
            phis = {i.get('comment'): i for i in fn.blocks[h]['instrs'][:fn.nphis[h]]}
            for nm in list(spec.get('allocs', ())) + list(spec.get('args', ())):
                if nm not in allocs and nm not in phis and nm not in params:
                    raise Unsupported('loop cut: no variable %s in %s' % (nm, fname))
            hook = self.pkg + spec['hook']
            if hook not in self.prog.funcs:
                raise Unsupported('loop cut: no hook ' + hook)
            self.loopcuts[(fname, h)] = {'spec': spec, 'body': body, 'allocs': allocs, 'phis': phis, 'params': params, 'hook': hook, 'header': h}

    def _fresh_of_type(self, st, tid, name):
        t = self.prog.types[tid]
        k = t['k']
        if k == 'int':
            bits, signed = t['bits'], t['signed']
            lo, hi = (-(1 << (bits - 1)), (1 << (bits - 1)) - 1) if signed else (0, (1 << bits) - 1)
            k2 = st.ndc.get('$havoc', 0) + 1
            st.ndc['$havoc'] = k2
            nm = 'h_%s_%d' % (name, k2)
            v = T.var(nm, lo, hi)
            st.inputs[nm] = ('int', v)
            return v
        if k == 'bool':
            k2 = st.ndc.get('$havoc', 0) + 1
            st.ndc['$havoc'] = k2
            nm = 'h_%s_%d' % (name, k2)
            v = T.bvar(nm)
            st.inputs[nm] = ('bool', v)
            return v
        if k == 'array':
            return [self._fresh_of_type(st, t['elem'], '%s%d' % (name, i)) for i in range(t['len'])]
        raise Unsupported('loop cut: cannot havoc a value of kind ' + k)

    def _cut_args(self, st, fr, lc, phase):
        out = [phase]
        for nm in lc['spec'].get('args', ()):
            if nm in lc['phis']:
                out.append(fr.locals[lc['phis'][nm]['n']])
            elif nm in lc['allocs']:
                out.append(self.load(st, fr.locals[lc['allocs'][nm]['n']]))
            else:
                out.append(fr.locals[nm])
        return out

    def _cut_push_hook(self, st, fr, lc, phase):
        fn = self.prog.funcs[lc['hook']]
        self.encoded.add(lc['hook'])
        nf = Frame(fn)
        for p, a in zip(fn.params, self._cut_args(st, fr, lc, phase)):
            nf.locals[p['n']] = a
        nf.ret = None
        nf.visits[0] = 1
        # the hook returns into the header: do_return advances ip by one
        fr.ip = fr.fn.nphis[lc['header']] - 1
        st.frames.append(nf)
        st.just_entered = False

    def _cut_havoc(self, st, fr, lc):
        for nm, ins in lc['phis'].items():
            fr.locals[ins['n']] = self._fresh_of_type(st, ins['t'], nm)
        for nm in lc['spec'].get('allocs', ()):
            ins = lc['allocs'][nm]
            self.store(st, fr.locals[ins['n']], self._fresh_of_type(st, ins['elem'], nm))

    def _cut_arrival(self, st, fr, target):
        """called by jump() when a frame arrives at a cut loop header"""
        lc = self.loopcuts[(fr.fn.name, target)]
        if fr.cutcount is None:
            fr.cutcount = {}
        c = fr.cutcount.get(target, 0)
        fr.cutcount[target] = c + 1
        if c == 0:
            # base case: the hook checks the invariant on the actual state (phase 0).  The first path that arrives goes
            # on: havoc + assume (phase 1, see do_return) and one execution of the real body; that exploration does not
            # depend on how the header was reached, so every later base path ends after its phase-0 check.
            key = (fr.fn.name, target)
            if key in self.cut_started:
                fr.cut_pending = ('end', target)
            else:
                self.cut_started.add(key)
                fr.cut_pending = target
            self._cut_push_hook(st, fr, lc, 0)
        else:
            fr.cut_armed = target

    # ------------------------------------------------------------ memory
    def load(self, st, p):
        if p is None:
            raise GoPanic('nil pointer dereference')
        if p.oid not in st.mem:
            if isinstance(p.oid, str) and not p.oid.startswith(self.pkg) and not p.path:
                # a package-level variable of another package (strconv.ErrSyntax, io.EOF ...): an opaque constant
                return Iface(-1, Opaque(p.oid))
            raise Unsupported('load from unknown object %r' % (p.oid,))
        v = st.mem[p.oid]
        return self._load_path(st, v, p.path)

    def _load_path(self, st, v, path):
        for n, i in enumerate(path):
            if isinstance(i, int):
                v = v[i]
            else:
                # symbolic index: ite chain over the feasible range
                lo, hi = T.iv(i)
                lo = max(lo, 0)
                hi = min(hi, len(v) - 1)
                rest = path[n + 1:]
                cf = self._table_closed_form(v, i, lo, hi, rest)
                if cf is not None:
                    return cf
                vals = [(k, self._load_path(st, v[k], rest)) for k in range(lo, hi + 1)]
                res = vals[-1][1]
                for k, x in reversed(vals[:-1]):
                    res = self.vite(T.eq(i, k), x, res)
                return res
        return v

    def _table_closed_form(self, v, i, lo, hi, rest):
        """constant integer table read at a symbolic index: if the entries in the feasible range follow
        a + (i div d) mod m  (checked against the actual table contents), return that closed form"""
        if hi - lo < 4 or len(rest) > 1:
            return None
        if not rest and isinstance(v[lo], list) and all(isinstance(x, int) and not isinstance(x, bool) for x in v[lo]):
            # the element is a small array of integers (digitPairs[rem]): closed form per component
            out = []
            for j in range(len(v[lo])):
                cf = self._table_closed_form(v, i, lo, hi, (j,))
                if cf is None:
                    return None
                out.append(cf)
            return out
        try:
            vals = []
            for k in range(lo, hi + 1):
                x = v[k]
                for r in rest:
                    if not isinstance(r, int):
                        return None
                    x = x[r]
                if isinstance(x, bool) or not isinstance(x, int):
                    return None
                vals.append(x)
        except (IndexError, TypeError):
            return None
        for d, m in ((1, 10), (10, 10), (1, 100), (100, 10), (1, 1 << 62)):
            a = vals[0] - ((lo // d) % m)
            if all(vals[k - lo] == a + ((k // d) % m) for k in range(lo, hi + 1)):
                t = T.divc(i, d) if d > 1 else i
                if m < (1 << 62):
                    t = T.modc(t, m)
                return T.add(t, a)
        return None

    def store(self, st, p, val):
        if p is None:
            raise GoPanic('nil pointer dereference')
        if isinstance(p.oid, str) and not self.cur_is_harness(st) and not getattr(self, 'in_init', False):
            self.purity_violations.append('store to package variable %s in %s' % (p.oid, st.frames[-1].fn.name))
        st.mem[p.oid] = self._store_path(st, st.mem[p.oid], p.path, val)

    def _store_path(self, st, tree, path, val):
        if not path:
            return val
        i = path[0]
        if isinstance(i, int):
            new = list(tree)
            new[i] = self._store_path(st, tree[i], path[1:], val)
            return new
        lo, hi = T.iv(i)
        lo = max(lo, 0)
        hi = min(hi, len(tree) - 1)
        new = list(tree)
        for k in range(lo, hi + 1):
            nv = self._store_path(st, tree[k], path[1:], val)
            new[k] = self.vite(T.eq(i, k), nv, tree[k])
        return new

    def alloc(self, st, val):
        oid = st.noid
        st.noid += 1
        st.mem[oid] = val
        return oid

    @staticmethod
    def _kid(x):
        return ('c', x) if isinstance(x, (int, bool)) else x.uid

    def cur_is_harness(self, st):
        f = st.frames[-1].fn
        return f.file is not None and f.file.startswith('zz_verif')

    # ------------------------------------------------------------ generic value ops
    def vite(self, c, a, b):
        """if-then-else over arbitrary value trees; raises ValueError when not mergeable"""
        if isinstance(c, bool):
            return a if c else b
        if a is b:
            return a
        if isinstance(a, (int, T.Lin)) and not isinstance(a, bool) and isinstance(b, (int, T.Lin)) and not isinstance(b, bool):
            return T.ite(c, a, b)
        if isinstance(a, (bool, T.B)) and isinstance(b, (bool, T.B)):
            return T.bite(c, a, b)
        if isinstance(a, list) and isinstance(b, list) and len(a) == len(b):
            return [self.vite(c, x, y) for x, y in zip(a, b)]
        if isinstance(a, tuple) and isinstance(b, tuple) and len(a) == len(b):
            return tuple(self.vite(c, x, y) for x, y in zip(a, b))
        if isinstance(a, Str) and isinstance(b, Str) and len(a.b) == len(b.b):
            return Str([self.vite(c, x, y) for x, y in zip(a.b, b.b)])
        if isinstance(a, Ptr) and isinstance(b, Ptr) and a.oid == b.oid and a.path == b.path:
            return a
        if isinstance(a, Slice) and isinstance(b, Slice) and (a.oid, a.base, a.off, a.len, a.cap) == (b.oid, b.base, b.off, b.len, b.cap):
            return a
        if a is None and b is None:
            return None
        if isinstance(a, Iface) and isinstance(b, Iface) and self.prog.types[a.tid]['s'] == self.prog.types[b.tid]['s']:
            return Iface(a.tid, self.vite(c, a.val, b.val))
        if isinstance(a, Closure) and isinstance(b, Closure) and a.fn == b.fn and a.binds == b.binds:
            return a
        if isinstance(a, Opaque) and isinstance(b, Opaque):
            return a
        if isinstance(a, float) and isinstance(b, float) and a == b:
            return a
        raise ValueError('cannot merge %r / %r' % (type(a), type(b)))

    def veq(self, a, b):
        """Go == on value trees -> bool | B"""
        if isinstance(a, (bool, T.B)) and isinstance(b, (bool, T.B)):
            return T.beq(a, b)
        if isinstance(a, (int, T.Lin)) and isinstance(b, (int, T.Lin)):
            return T.eq(a, b)
        if isinstance(a, list) and isinstance(b, list):
            return T.band(*[self.veq(x, y) for x, y in zip(a, b)])
        if isinstance(a, Str) and isinstance(b, Str):
            if len(a.b) != len(b.b):
                return False
            return T.band(*[T.eq(x, y) for x, y in zip(a.b, b.b)])
        if a is None or b is None:
            if a is None and b is None:
                return True
            x = a if b is None else b
            if isinstance(x, Slice):
                return False
            return False
        if isinstance(a, Ptr) and isinstance(b, Ptr):
            return a.oid == b.oid and a.path == b.path
        if isinstance(a, Iface) and isinstance(b, Iface):
            if a.tid == -1 or b.tid == -1:
                return a.tid == b.tid and a.val.what == b.val.what
            if self.prog.types[a.tid]['s'] != self.prog.types[b.tid]['s']:
                return False
            return self.veq(a.val, b.val)
        if isinstance(a, Opaque) and isinstance(b, Opaque):
            return a.what == b.what
        if isinstance(a, float) and isinstance(b, float):
            return a == b
        raise Unsupported('veq %r %r' % (type(a), type(b)))

    # ------------------------------------------------------------ path condition
    def add_pc(self, st, b):
        if b is True:
            return True
        if b is False:
            return False
        if b.op == 'and':
            for x in b.args:
                if not self.add_pc(st, x):
                    return False
            return True
        if b.uid in st.pcset:
            return True
        st.pc.append(b)
        st.pcset.add(b.uid)
        self.learn(st, b)
        return True

    def _refine(self, st, uid, lo, hi):
        old = st.refine.get(uid, (None, None))
        new = T._isect(old, (lo, hi))
        if new != old:
            st.refine[uid] = new

    def _refine_atom(self, st, a, lo, hi):
        self._refine(st, a.uid, lo, hi)
        if a.op == 'div':
            p, m = a.args
            if not isinstance(p, int):
                plo = None if lo is None else lo * m
                phi = None if hi is None else hi * m + m - 1
                self._refine_lin(st, p, plo, phi)

    def _refine_lin(self, st, d, lo, hi):
        # d = gs*core + c  ->  bounds on core
        gs, c = d.gs, d.c
        clo = chi = None
        if gs > 0:
            if lo is not None:
                clo = -((-(lo - c)) // gs)
            if hi is not None:
                chi = (hi - c) // gs
        else:
            m = -gs
            if hi is not None:
                clo = -((-(c - hi)) // m)
            if lo is not None:
                chi = (c - lo) // m
        self._refine(st, d.core, clo, chi)
        if len(d.terms) == 1:
            # core is the atom itself (coefficient 1)
            self._refine_atom(st, d.terms[0][0], clo, chi)

    def learn(self, st, b):
        op = b.op
        if op == 'le0':
            self._refine_lin(st, b.args[0], None, 0)
        elif op == 'eq0':
            self._refine_lin(st, b.args[0], 0, 0)
        elif op == 'not' and b.args[0].op == 'eq0':
            d = b.args[0].args[0]
            lo, hi = T.iv(d)
            if lo == 0:
                self._refine_lin(st, d, 1, None)
            elif hi == 0:
                self._refine_lin(st, d, None, -1)
        elif op == 'and':
            for x in b.args:
                self.learn(st, x)

    def decide(self, st, c):
        """True / False if c is decided on this path, None otherwise (no solver)"""
        if isinstance(c, bool):
            return c
        if c.uid in st.pcset:
            return True
        n = T.bnot(c)
        if isinstance(n, bool):
            return not n
        if n.uid in st.pcset:
            return False
        if c.op == 'and':
            r = True
            for x in c.args:
                d = self.decide(st, x)
                if d is False:
                    return False
                if d is None:
                    r = None
            return r
        if c.op == 'or':
            r = False
            for x in c.args:
                d = self.decide(st, x)
                if d is True:
                    return True
                if d is None:
                    r = None
            return r
        return None

    def feasible(self, st, extra):
        """quick feasibility of pc + extra: False only when a solver says unsat"""
        key = (frozenset(st.pcset), extra.uid if not isinstance(extra, bool) else extra)
        r = self.query_cache.get(key)
        if r is None:
            t0 = time.time()
            r, _ = S.quick_check(st.pc + [extra], self.quick_ms)
            fr0 = st.frames[-1]
            deep = fr0.visits.get(fr0.block, 0) >= 36     # far into a loop: do not keep unrolling on "unknown"
            if r == 'unknown' and (self.opts.get('feas_cvc5') or deep):
                # z3 is weak on these; cvc5 usually answers in tens of milliseconds
                text, em = T.to_smt(st.pc + [extra], want_model=False)
                res = S.portfolio(text, [], self.opts.get('feas_timeout', 10 if deep else 3), ('cvc5', 'z3-new') if deep else ('cvc5',))
                r = res['verdict'] if res['verdict'] in ('sat', 'unsat') else 'unknown'
            self.query_cache[key] = r
            dt = time.time() - t0
            if dt > 0.5 and self.opts.get('trace_slow'):
                fr = st.frames[-1]
                ins = fr.fn.blocks[fr.block]['instrs'][fr.ip]
                print('SLOW feasibility %.2fs %s at %s %s pc=%d' % (dt, r, fr.fn.name.split('.')[-1], ins.get('pos'), len(st.pc)))
        return r != 'unsat'

    def branch(self, st, c):
        d = self.decide(st, c)
        if d is not None:
            return d
        if not self.feasible(st, c):
            self.add_pc(st, T.bnot(c))
            return False
        if not self.feasible(st, T.bnot(c)):
            self.add_pc(st, c)
            return True
        raise Fork(c)

    def concrete(self, st, t, limit=140):
        if isinstance(t, int):
            return t
        lo, hi = T.iv(t)
        if lo is not None and lo == hi:
            return lo
        raise ForkValues(t)

    # ------------------------------------------------------------ obligations
    def prove(self, st, cond, kind, msg, pos):
        """obligation: pc -> cond.  Returns verdict string."""
        if cond is True:
            self.trivial_checks += 1
            return 'trivial'
        neg = T.bnot(cond) if cond is not False else True
        asserts = st.pc + ([neg] if neg is not True else [])
        text, em = T.to_smt(asserts)
        t0 = time.time()
        # first a quick in-process attempt (finds counterexamples and easy proofs cheaply)
        res = None
        if self.opts.get('inproc_first', True):
            v, model = S.quick_check(asserts, self.opts.get('inproc_prove_ms', 150), want_model=True)
            if v in ('sat', 'unsat'):
                res = {'verdict': v, 'model': model, 'solver': 'z3-inproc', 'times': {'z3-inproc': round(time.time() - t0, 3)}}
        if res is None:
            res = S.portfolio(text, sorted(em.vars), self.timeout, self.solvers)
        ob = {'kind': kind, 'msg': msg, 'pos': pos, 'verdict': res['verdict'], 'solver': res.get('solver'),
              'times': res.get('times'), 'nodes': em.nodes, 'wall': round(time.time() - t0, 3)}
        if res['verdict'] == 'sat':
            ob['model'] = res['model']
            ob['inputs'] = self.model_inputs(st, res['model'])
            self.violated = True
            try:
                ob['alt_inputs'] = self._decisive_models(st, asserts)
            except Exception:  # noqa: a convenience for the replay only
                ob['alt_inputs'] = []
        if res['verdict'] not in ('sat', 'unsat'):
            ob['detail'] = res.get('verdicts')
            if self.opts.get('keep_unknown'):
                import os
                d = self.opts['keep_unknown']
                os.makedirs(d, exist_ok=True)
                with open(os.path.join(d, 'unk_%d.smt2' % len(self.obligations)), 'w') as f:
                    f.write(text)
        self.obligations.append(ob)
        if self.opts.get('trace_slow'):
            print('OB', ob['verdict'], ob.get('solver'), ob['wall'], kind, msg[:90], pos, 'paths', self.paths, flush=True)
        return res['verdict']


    def _decisive_models(self, st, asserts):
        """A violated intermediate obligation (e.g. a wrong sticky flag handed to the rounding kernel) changes the end
        result only for special digit patterns.  For the native replay, look for further models of the same violation in
        which every digit the kernel will drop is zero (then the sticky flag alone decides directed roundings)."""
        calls = st.ghost.get('cuts', ())
        if not calls:
            return []
        N = calls[-1]['N']
        if isinstance(N, int):
            return []
        out = []
        M1 = 5 * (1 << 111)
        t_end = time.time() + 25
        for j in (4, 2, 6, 1, 3, 5, 8, 12, 20):
            if time.time() > t_end or len(out) >= 3:
                break
            extra = [T.eq(T.modc(N, 10 ** j), 0), T.lt(N, M1 * 10 ** j), T.ge(N, M1 * 10 ** (j - 1))]
            if any(e is False for e in extra):
                continue
            v, model = S.quick_check(list(asserts) + [e for e in extra if e is not True], 2500, want_model=True)
            if v == 'sat':
                out.append(self.model_inputs(st, model))
        return out

    def model_inputs(self, st, model):
        out = {}
        memo = {}
        for name, (kind, term) in st.inputs.items():
            if kind == 'bool':
                out[name] = bool(T.eval_bool(term, model, memo))
            else:
                out[name] = T.eval_int(term, model, memo)
        return out

    # ------------------------------------------------------------ running
    def run(self, fname, args, deadline=None):
        """explore harness function fname(args...) completely"""
        full = fname if fname in self.prog.funcs else self.pkg + fname
        fn = self.prog.funcs[full]
        st = State()
        st.mem = dict(self.base_mem)
        st.noid = self.base_noid
        st.bound = self.opts.get('loop_bound', 600)
        fr = Frame(fn)
        for p, a in zip(fn.params, args):
            fr.locals[p['n']] = a
        st.frames.append(fr)
        self.deadline = deadline
        self.explore(st, None)

    def end_path(self, st, kind, msg=''):
        self.paths += 1
        self.ended[kind] = self.ended.get(kind, 0) + 1

    def explore(self, st, stop):
        work = [st]
        arrived = []
        while work:
            if self.violated and self.stop_on_violation:
                return arrived
            s = work.pop()
            T.set_ctx(s.refine)
            T.Ctx.pc = s.pc
            while True:
                if self.deadline is not None and time.time() > self.deadline:
                    if self.opts.get('best_effort'):
                        self.ended['time-box'] = self.ended.get('time-box', 0) + 1
                        return arrived
                    self.obligations.append({'kind': 'budget', 'msg': 'time budget exhausted during exploration', 'verdict': 'unknown', 'pos': ''})
                    self.violated = self.violated
                    return arrived
                try:
                    r = self.step(s, stop)
                except PathEnd as e:
                    self.end_path(s, e.kind, e.msg)
                    break
                if r is None:
                    continue
                if r == 'done':
                    self.end_path(s, 'return')
                    break
                if r == 'arrived':
                    arrived.append(s)
                    break
                # list of successor states
                self.forks += 1
                for x in reversed(r):
                    work.append(x)
                break
        return arrived

    def fail_unwind(self, st, fn, block):
        self.obligations.append({'kind': 'unwind', 'msg': 'loop bound %d exceeded in %s block %d' % (st.bound, fn.name, block),
                                 'verdict': 'unknown', 'pos': ''})
        raise PathEnd('unwind')

    def jump(self, st, fr, target):
        fn = fr.fn
        blk = fn.blocks[target]
        n = fn.nphis[target]
        if n:
            pidx = blk['preds'].index(fr.block)
            vals = []
            for ins in blk['instrs'][:n]:
                vals.append((ins['n'], self.val(st, fr, ins['edges'][pidx])))
            for k, v in vals:
                fr.locals[k] = v
        fr.prev = fr.block
        fr.block = target
        fr.ip = n
        if self.loopcuts and self.concrete_inputs is None:
            if fr.cut_armed is not None:
                lc = self.loopcuts[(fn.name, fr.cut_armed)]
                if target not in lc['body']:
                    fr.cut_armed = None
                elif target != fr.cut_armed and not (blk.get('comment') or '').startswith('cond.'):
                    # the loop body is entered again from a state reached after one iteration: the hook checks the
                    # invariant there (phase 2) and ends the path; the body itself is covered from the havoc'd state
                    fr.block = fr.cut_armed
                    fr.cut_armed = None
                    self._cut_push_hook(st, fr, lc, 2)
                    return
            if (fn.name, target) in self.loopcuts:
                self._cut_arrival(st, fr, target)
                if st.frames[-1] is not fr:
                    fr.visits[target] = fr.visits.get(target, 0) + 1
                    return
        c = fr.visits.get(target, 0) + 1
        fr.visits[target] = c
        if c % 40 == 0 and st.pc:
            # long-running loop decided by intervals only: make sure the path itself is still feasible
            text, em = T.to_smt(st.pc, want_model=False)
            res = S.portfolio(text, [], 20, self.solvers)
            if res['verdict'] == 'unsat':
                raise PathEnd('infeasible')
        if c > st.bound:
            self.fail_unwind(st, fn, target)
        st.just_entered = True

    def val(self, st, fr, o):
        k = o['k']
        if k == 'v':
            return fr.locals[o['n']]
        if k == 'c':
            t = self.prog.types[o['t']]
            tk = t['k']
            if o.get('nil'):
                return self.zero(o['t'])
            if tk == 'int':
                return int(o['v'])
            if tk == 'bool':
                return o['v']
            if tk == 'string':
                return Str(o.get('bytes') or [])
            if tk == 'float':
                from fractions import Fraction
                return float(Fraction(o['v']))
            raise Unsupported('const of kind ' + tk)
        if k == 'g':
            return Ptr(o['n'], ())
        if k == 'f':
            return Closure(o['n'], ())
        if k == 'b':
            return ('builtin', o['n'])
        raise Unsupported('operand ' + k)

    # ------------------------------------------------------------ merge
    def _sig_val(self, v, out):
        if isinstance(v, (bool, T.B)):
            out.append('b')
        elif isinstance(v, int):
            out.append(v if abs(v) > 1 else 's')
        elif isinstance(v, T.Lin):
            out.append('s')
        elif isinstance(v, (list, tuple)):
            for x in v:
                self._sig_val(x, out)
        elif isinstance(v, Ptr):
            out.append(('p', v.oid, tuple(x if isinstance(x, int) else -1 for x in v.path)))
        elif isinstance(v, Slice):
            out.append(('s', v.oid, v.off, v.len, v.cap))
        elif isinstance(v, Str):
            out.append(('str', len(v.b)))
        elif v is None:
            out.append(None)

    def _signature(self, s, fn, J, base_mem):
        """cheap key: states with different keys can never merge (different concrete control data)"""
        out = [len(s.frames)]
        fr = s.frames[-1]
        if J == -1:
            out.append((fr.block, fr.ip, s.last_ret))
            if s.last_ret is not None:
                self._sig_val(fr.locals.get(s.last_ret), out)
        else:
            n = fn.nphis[J]
            for ins in fn.blocks[J]['instrs'][:n]:
                self._sig_val(fr.locals.get(ins['n']), out)
        for oid in sorted((o for o, v in s.mem.items() if o in base_mem and base_mem[o] is not v), key=str):
            out.append(('o', oid))
            self._sig_val(s.mem[oid], out)
        out.append(tuple(sorted(s.ndc.items())))
        cuts = s.ghost.get('cuts')
        if cuts:
            out.append(('cuts', id(cuts)))
        try:
            return hash(tuple(out)), tuple(out)
        except TypeError:
            return id(s), None

    def try_merge(self, base_len, states, fn, J, base_mem):
        """merge states that all sit at block J (phis evaluated) of the same frame depth"""
        groups = {}
        order = []
        for s in states:
            k = self._signature(s, fn, J, base_mem)
            if k not in groups:
                groups[k] = []
                order.append(k)
            groups[k].append(s)
        out = []
        for k in order:
            merged_list = []
            for s in groups[k]:
                merged = False
                for i, m in enumerate(merged_list):
                    x = self.merge2(base_len, m, s, fn, J)
                    if x is not None:
                        merged_list[i] = x
                        merged = True
                        self.merges += 1
                        break
                if not merged:
                    merged_list.append(s)
            out.extend(merged_list)
        return out

    def _control_conflict(self, a, b):
        if isinstance(a, bool) or isinstance(b, bool):
            return False
        if isinstance(a, (int, T.Lin)) and isinstance(b, (int, T.Lin)):
            d = T.sub(a, b)
            if isinstance(d, int) and d != 0:
                if isinstance(a, int) and isinstance(b, int) and abs(a) <= 1 and abs(b) <= 1:
                    return False
                return True
        return False

    def merge_val(self, g, a, b, control=True):
        if a is b:
            return a
        if control and self._control_conflict(a, b):
            raise ValueError('control integer')
        if isinstance(a, list) and isinstance(b, list) and len(a) == len(b):
            return [self.merge_val(g, x, y, control) for x, y in zip(a, b)]
        if isinstance(a, tuple) and isinstance(b, tuple) and len(a) == len(b):
            return tuple(self.merge_val(g, x, y, control) for x, y in zip(a, b))
        return self.vite(g, a, b)

    def merge2(self, base_len, s1, s2, fn, J):
        if len(s1.frames) != len(s2.frames):
            return None
        f1, f2 = s1.frames[-1], s2.frames[-1]
        if J == -1:
            if f1.fn is not f2.fn or f1.block != f2.block or f1.ip != f2.ip or s1.last_ret != s2.last_ret:
                return None
        elif f1.block != J or f2.block != J or f1.fn is not f2.fn:
            return None
        if s1.ndc != s2.ndc or s1.noid != s2.noid and False:
            return None
        suf1 = s1.pc[base_len:]
        suf2 = s2.pc[base_len:]
        # refinements valid on both arms (control-integer conflicts are judged under them)
        ref = {}
        for k, v1 in s1.refine.items():
            v2 = s2.refine.get(k)
            if v2 is not None:
                u = T._union(v1, v2)
                if u != (None, None):
                    ref[k] = u
        T.set_ctx(ref)
        g1 = T.band(*suf1) if suf1 else True
        g2 = T.band(*suf2) if suf2 else True
        if g1 is True or g2 is True:
            return None
        try:
            new_locals = dict(f1.locals)
            if J == -1:
                k = s1.last_ret
                if k is not None:
                    new_locals[k] = self.merge_val(g1, f1.locals[k], f2.locals[k])
            else:
                n = fn.nphis[J]
                for ins in fn.blocks[J]['instrs'][:n]:
                    k = ins['n']
                    new_locals[k] = self.merge_val(g1, f1.locals[k], f2.locals[k])
            new_mem = dict(s1.mem)
            for oid, v2 in s2.mem.items():
                v1 = s1.mem.get(oid, None)
                if oid not in s1.mem:
                    new_mem[oid] = v2
                elif v1 is not v2:
                    new_mem[oid] = self.merge_val(g1, v1, v2)
            # lower frames: locals are SSA and identical; memory handled above
            ghost = dict(s1.ghost)
            for k, v2 in s2.ghost.items():
                if k in ghost and ghost[k] is not v2:
                    ghost[k] = self.merge_val(g1, ghost[k], v2, control=False)
                elif k not in ghost:
                    ghost[k] = v2
            # round-trip annotations of composed Decimals: a merged bit pattern keeps a merged annotation
            a1 = [(k, v) for k, v in s1.ghost.items() if isinstance(k, tuple) and k and k[0] == 'composed' and len(v) == 5]
            a2 = [(k, v) for k, v in s2.ghost.items() if isinstance(k, tuple) and k and k[0] == 'composed' and len(v) == 5]
            if a1 and a2 and len(a1) * len(a2) <= 16:
                for k1, v1 in a1:
                    for k2, v2 in a2:
                        if k1 == k2:
                            continue
                        try:
                            lo = self.vite(g1, v1[3], v2[3])
                            hi = self.vite(g1, v1[4], v2[4])
                            rec = (self.vite(g1, v1[0], v2[0]), self.vite(g1, v1[1], v2[1]), self.vite(g1, v1[2], v2[2]), lo, hi)
                            ghost[('composed', self._kid(lo), self._kid(hi))] = rec
                        except ValueError:
                            pass
        except ValueError:
            return None
        m = State()
        m.frames = [f.copy() for f in s1.frames]
        m.frames[-1].locals = new_locals
        for a, b in zip(m.frames, s2.frames):
            for blk, c in b.visits.items():
                if c > a.visits.get(blk, 0):
                    a.visits[blk] = c
        m.mem = new_mem
        m.pc = list(s1.pc[:base_len])
        m.pcset = set(x.uid for x in m.pc)
        m.refine = ref
        T.set_ctx(m.refine)
        disj = T.bor(g1, g2)
        if disj is not True:
            m.pc.append(disj)
            m.pcset.add(disj.uid)
        m.noid = max(s1.noid, s2.noid)
        m.ndc = dict(s1.ndc)
        m.just_entered = (J != -1)
        m.just_returned = (J == -1)
        m.last_ret = s1.last_ret
        m.inputs = dict(s1.inputs)
        m.inputs.update(s2.inputs)
        m.bound = s1.bound
        m.ghost = ghost
        return m

    # ------------------------------------------------------------ calls
    def do_call(self, st, fr, ins, callee_name, args, binds=()):
        """push a frame for callee (or run an intrinsic).  Returns the value if completed immediately,
        or the marker self.PUSHED."""
        f = self.intr.get(callee_name)
        if f is None and callee_name.startswith(self.pkg):
            f = self.intr.get('$pkg.' + callee_name[len(self.pkg):])
        if f is not None:
            return f(self, st, fr, ins, args)
        cut = self.cuts.get(callee_name)
        if cut is not None:
            return cut(self, st, fr, ins, args)
        if self.compose_hook and callee_name in self.compose_readers and args and isinstance(args[0], list) and len(args[0]) == 2:
            d = args[0]
            rec = st.ghost.get(('composed', self._kid(d[0]), self._kid(d[1])))
            if rec is not None:
                neg, sig, exp = rec[:3]
                N = T.add(sig[0], T.mulc(sig[1], W64))
                ok = T.band(T.ge(exp, 0), T.le(exp, 12287), T.le(N, 5 * (1 << 111) - 1))
                v = 'trivial' if ok is True else None
                if ok is not True:
                    dd = self.decide(st, ok)
                    if dd is True:
                        v = 'trivial'
                    else:
                        v = self.prove(st, ok, 'check', 'compose called with a coefficient or exponent outside the format', ins.get('pos', ''))
                if v in ('trivial', 'unsat'):
                    self.add_pc(st, ok)
                    self.used_summaries.add('compose/decompose round trip')
                    what = self.compose_readers[callee_name]
                    if what == 'decompose':
                        return (list(sig), exp)
                    if what == 'neg':
                        return neg
                    if what == 'false':
                        return False
                    if what == 'zero':
                        return T.band(T.eq(sig[0], 0), T.eq(sig[1], 0))
        sm = self.summaries.get(callee_name)
        if sm is not None:
            self.used_summaries.add(callee_name)
            callee_name = sm
        fn = self.prog.funcs.get(callee_name)
        if fn is None or fn.external or not fn.blocks:
            raise Unsupported('call to %s' % callee_name)
        self.encoded.add(callee_name)
        nf = Frame(fn)
        for p, a in zip(fn.params, args):
            nf.locals[p['n']] = a
        for p, a in zip(fn.freevars, binds):
            nf.locals[p['n']] = a
        nf.ret = ins.get('n')
        if len(st.frames) > 200:
            raise Unsupported('call depth')
        st.frames.append(nf)
        nf.visits[0] = 1
        st.just_entered = False
        return self.PUSHED

    PUSHED = object()

    def do_return(self, st, vals):
        fr = st.frames.pop()
        if not st.frames:
            st.result = vals
            return 'done'
        if len(vals) == 1:
            rv = vals[0]
        elif len(vals) == 0:
            rv = None
        else:
            rv = tuple(vals)
        if fr.catch:
            rv = False     # expectPanic: the closure returned normally
        caller = st.frames[-1]
        if fr.ret is not None:
            caller.locals[fr.ret] = rv
        if self.compose_hook and fr.fn.name == self.pkg + 'compose' and isinstance(rv, list):
            # remember what this bit pattern was composed from (round trip contract, lemma vh_lemma_compose)
            L = fr.locals
            try:
                key = ('composed', self._kid(rv[0]), self._kid(rv[1]))
                st.ghost[key] = (L['neg'], L['sig'], L['exp'], rv[0], rv[1])
            except KeyError:
                pass
        caller.ip += 1
        if caller.cut_pending is not None:
            # the base-case hook returned: havoc the loop-carried state and assume the invariant (phase 1)
            target = caller.cut_pending
            caller.cut_pending = None
            if isinstance(target, tuple):
                raise PathEnd('cut-base')
            lc = self.loopcuts[(caller.fn.name, target)]
            self._cut_havoc(st, caller, lc)
            self._cut_push_hook(st, caller, lc, 1)
            return None
        st.just_returned = True
        st.last_ret = fr.ret
        return None

    def do_panic(self, st, msg, pos):
        # unwind to a catcher (expectPanic) if any
        for i in range(len(st.frames) - 1, -1, -1):
            if st.frames[i].catch:
                fr = st.frames[i]
                del st.frames[i:]
                caller = st.frames[-1]
                if fr.ret is not None:
                    caller.locals[fr.ret] = True
                caller.ip += 1
                return None
        if self.concrete_inputs is not None:
            raise PathEnd('panic:concrete', msg)
        # an uncaught panic: the path condition must be infeasible
        v = self.prove(st, False, 'panic', 'panic: %s' % msg, pos)
        raise PathEnd('panic:' + v, msg)

    # ------------------------------------------------------------ one step
    def step(self, st, stop):
        fr = st.frames[-1]
        if st.just_entered:
            st.just_entered = False
            if stop is not None and stop[2] != -1 and len(st.frames) == stop[0] and fr.block == stop[2] and fr.fn is stop[1]:
                return 'arrived'
        if st.just_returned:
            st.just_returned = False
            if stop is not None and stop[2] == -1 and len(st.frames) == stop[0] - 1:
                return 'arrived'
        blk = fr.fn.blocks[fr.block]
        ins = blk['instrs'][fr.ip]
        self.insn_count += 1
        if self.insn_count > self.max_insns:
            self.obligations.append({'kind': 'budget', 'msg': 'instruction budget exhausted', 'verdict': 'unknown', 'pos': ''})
            raise PathEnd('budget')
        try:
            return self.exec_ins(st, fr, blk, ins, stop)
        except Unsupported:
            if not getattr(self, 'in_init', False):
                raise
            # package initialisation: anything outside the modelled fragment yields an opaque value
            if 'n' in ins:
                fr.locals[ins['n']] = Opaque('init:' + ins['op'])
            fr.ip += 1
            return None
        except Fork as f:
            a = st.copy()
            b = st
            T.set_ctx(a.refine)
            self.add_pc(a, f.cond)
            T.set_ctx(b.refine)
            self.add_pc(b, T.bnot(f.cond))
            return [a, b]
        except ForkValues as f:
            return self.fork_values(st, f.term, f.values)
        except GoPanic as p:
            return self.do_panic(st, p.msg, ins.get('pos', ''))

    def fork_values(self, st, term, values=None):
        lo, hi = T.iv(term)
        outs = []
        if values is None:
            if lo is None or hi is None or hi - lo > 300:
                # solver-driven enumeration
                if self.opts.get('trace_slow'):
                    fr = st.frames[-1]
                    print('ENUM', term, term.terms, term.c, fr.fn.name.split('.')[-1], fr.fn.blocks[fr.block]['instrs'][fr.ip].get('pos'))
                values = []
                pc = list(st.pc)
                for _ in range(64):
                    v, model = S.quick_check(pc, 2000, want_model=True)
                    if v == 'unknown':
                        text, em = T.to_smt(pc)
                        res = S.portfolio(text, sorted(em.vars), 30, self.solvers)
                        v, model = res['verdict'], res['model']
                    if v != 'sat':
                        if v != 'unsat':
                            raise Unsupported('cannot enumerate values of control term')
                        break
                    x = T.eval_int(term, model)
                    values.append(x)
                    pc.append(T.ne(term, x))
                else:
                    raise Unsupported('too many values for control term')
            else:
                values = range(lo, hi + 1)
        for v in values:
            c = T.eq(term, v)
            if c is False:
                continue
            if c is not True and not self.feasible(st, c):
                continue
            s = st.copy()
            T.set_ctx(s.refine)
            self.add_pc(s, c)
            if not isinstance(term, int):
                self._refine_lin(s, term, v, v)
            outs.append(s)
        T.set_ctx(st.refine)
        if not outs:
            raise PathEnd('infeasible')
        return outs

    def exec_ins(self, st, fr, blk, ins, stop):
        op = ins['op']
        L = fr.locals
        if op == 'BinOp':
            L[ins['n']] = self.binop(st, fr, ins)
        elif op == 'UnOp':
            u = ins['uop']
            x = self.val(st, fr, ins['x'])
            if u == '*':
                L[ins['n']] = self.load(st, x)
                if isinstance(x, Ptr) and isinstance(x.oid, str) and not self.cur_is_harness(st):
                    self.global_reads.add(x.oid)
            elif u == '!':
                L[ins['n']] = T.bnot(x)
            elif u == '-':
                bits, sg = self.int_type(ins['t'])
                L[ins['n']] = T.wrap(T.neg(x), bits, sg)
            elif u == '^':
                bits, sg = self.int_type(ins['t'])
                if sg:
                    L[ins['n']] = T.sub(-1, x)
                else:
                    L[ins['n']] = T.sub((1 << bits) - 1, x)
            else:
                raise Unsupported('unop ' + u)
        elif op == 'Store':
            self.store(st, self.val(st, fr, ins['addr']), self.val(st, fr, ins['val']))
        elif op == 'Alloc':
            L[ins['n']] = Ptr(self.alloc(st, self.zero(ins['elem'])), ())
        elif op == 'IndexAddr':
            x = self.val(st, fr, ins['x'])
            i = self.val(st, fr, ins['i'])
            if isinstance(x, Slice):
                self.bounds(st, i, x.len)
                L[ins['n']] = Ptr(x.oid, x.base + (T.add(x.off, i),))
            elif isinstance(x, Ptr):
                n = self.prog.types[self.prog.types[ins['x']['t']]['elem']]['len']
                self.bounds(st, i, n)
                L[ins['n']] = Ptr(x.oid, x.path + (i,))
            elif x is None:
                if self.kind(ins['x']['t']) == 'slice':
                    self.bounds(st, i, 0)
                raise GoPanic('nil dereference in IndexAddr')
            else:
                raise Unsupported('IndexAddr on %r' % (x,))
        elif op == 'FieldAddr':
            x = self.val(st, fr, ins['x'])
            if x is None:
                raise GoPanic('nil pointer dereference')
            L[ins['n']] = Ptr(x.oid, x.path + (ins['idx'],))
        elif op == 'Field':
            x = self.val(st, fr, ins['x'])
            L[ins['n']] = x[ins['idx']]
        elif op == 'Index':
            x = self.val(st, fr, ins['x'])
            i = self.val(st, fr, ins['i'])
            if isinstance(x, Str):
                self.bounds(st, i, len(x.b))
                L[ins['n']] = self._load_path(st, list(x.b), (i,))
            else:
                self.bounds(st, i, len(x))
                L[ins['n']] = self._load_path(st, x, (i,))
        elif op == 'Extract':
            L[ins['n']] = self.val(st, fr, ins['x'])[ins['idx']]
        elif op == 'Phi':
            raise Unsupported('phi executed directly')
        elif op == 'Jump':
            self.jump(st, fr, blk['succs'][0])
            return None
        elif op == 'If':
            return self.exec_if(st, fr, blk, ins, stop)
        elif op == 'Return':
            vals = [self.val(st, fr, o) for o in ins['results']]
            return self.do_return(st, vals)
        elif op == 'Call':
            r = self.exec_call(st, fr, ins)
            if r is self.PUSHED:
                return None
            L[ins['n']] = r
        elif op == 'Convert':
            L[ins['n']] = self.convert(st, fr, ins)
        elif op == 'ChangeType':
            L[ins['n']] = self.val(st, fr, ins['x'])
        elif op == 'ChangeInterface':
            L[ins['n']] = self.val(st, fr, ins['x'])
        elif op == 'MakeInterface':
            L[ins['n']] = Iface(ins['xt'], self.val(st, fr, ins['x']))
        elif op == 'MakeClosure':
            f = self.val(st, fr, ins['fn'])
            L[ins['n']] = Closure(f.fn, [self.val(st, fr, b) for b in ins['bindings']])
        elif op == 'TypeAssert':
            L[ins['n']] = self.type_assert(st, fr, ins)
        elif op == 'Slice':
            L[ins['n']] = self.slice_op(st, fr, ins)
        elif op == 'MakeSlice':
            n = self.concrete(st, self.val(st, fr, ins['len']))
            c = self.concrete(st, self.val(st, fr, ins['cap']))
            if n < 0 or c < n:
                raise GoPanic('makeslice: len out of range')
            et = self.prog.types[ins['t']]['elem']
            oid = self.alloc(st, [self.zero(et) for _ in range(c)])
            L[ins['n']] = Slice(oid, (), 0, n, c)
        elif op == 'Panic':
            x = self.val(st, fr, ins['x'])
            return self.do_panic(st, 'explicit panic %r' % (x,), ins.get('pos', ''))
        elif op == 'RunDefers':
            pass
        else:
            raise Unsupported('instruction ' + op)
        fr.ip += 1
        return None

    def bounds(self, st, i, n):
        if isinstance(i, int):
            if 0 <= i < n:
                return
            raise GoPanic('index out of range [%d] with length %d' % (i, n))
        ok = T.band(T.le(0, i), T.lt(i, n))
        if self.branch(st, ok):
            return
        raise GoPanic('index out of range (symbolic index) with length %d' % n)

    def cheap_region(self, fn, b, J):
        """a loop-free region that is small and calls nothing but intrinsics / contracts: both arms are
        simply executed and merged without asking a solver whether each arm is feasible"""
        key = (fn.name, b)
        r = self._cheap.get(key)
        if r is not None:
            return r
        seen = set()
        stack = list(fn.blocks[b]['succs'])
        n = 0
        ok = True
        while stack and ok:
            x = stack.pop()
            if x == J or x in seen:
                continue
            seen.add(x)
            for ins in fn.blocks[x]['instrs']:
                n += 1
                if ins['op'] == 'Call':
                    f = ins.get('fn')
                    name = f['n'] if f and f['k'] == 'f' else None
                    if f and f['k'] == 'b':
                        continue
                    if name is None:
                        ok = False
                        break
                    short = '$pkg.' + name[len(self.pkg):] if name.startswith(self.pkg) else name
                    if name in self.intr or short in self.intr or name in self.summaries or name in self.cuts:
                        if short in ('$pkg.check', '$pkg.assume', '$pkg.expectPanic'):
                            ok = False
                            break
                        continue
                    ok = False
                    break
                elif ins['op'] in ('Panic', 'Defer', 'Go'):
                    ok = False
                    break
            if n > 60:
                ok = False
            stack.extend(fn.blocks[x]['succs'])
        self._cheap[key] = ok
        return ok

    # ------------------------------------------------------------ If with merging
    def exec_if(self, st, fr, blk, ins, stop):
        c = self.val(st, fr, ins['x'])
        d = self.decide(st, c)
        fn = fr.fn
        J = None
        loopfree = True
        if self.opts.get('merge', True) and not getattr(self, 'in_init', False) and fn.name not in self.fork_in:
            reg = fn.simple_region(fr.block)
            if reg is not None:
                J, loopfree = reg
                if not loopfree and not self.opts.get('merge_loops', False):
                    J = None
        if J == -1 and len(st.frames) == 1:
            J = None
        if d is None and (J is None or not loopfree or not self.cheap_region(fn, fr.block, J)):
            if not self.feasible(st, c):
                self.add_pc(st, T.bnot(c))
                d = False
            elif not self.feasible(st, T.bnot(c)):
                self.add_pc(st, c)
                d = True
        depth = len(st.frames)
        mystop = (depth, fn, J)
        if d is not None:
            if J is None or loopfree or not self.opts.get('merge_decided', False):
                self.jump(st, fr, blk['succs'][0 if d else 1])
                return None
            # a decided branch over a region with loops: symbolic forks inside are re-merged at its join
            base_mem = dict(st.mem)
            base_len = len(st.pc)
            self.jump(st, fr, blk['succs'][0 if d else 1])
            arrived = self.explore(st, mystop)
        else:
            base_mem = dict(st.mem)
            a = st.copy()
            b = st
            T.set_ctx(a.refine)
            self.add_pc(a, c)
            self.jump(a, a.frames[-1], blk['succs'][0])
            T.set_ctx(b.refine)
            self.add_pc(b, T.bnot(c))
            self.jump(b, b.frames[-1], blk['succs'][1])
            site = (fn.name.split('.')[-1], ins.get('pos'), J, loopfree)
            self.fork_sites[site] = self.fork_sites.get(site, 0) + 1
            if J is None:
                return [a, b]
            # the common prefix is the pc before the branch literal was added
            base_len = min(len(a.pc), len(b.pc))
            while base_len > 0 and (a.pc[base_len - 1] is not b.pc[base_len - 1]):
                base_len -= 1
            arrived = []
            arrived += self.explore(a, mystop)
            arrived += self.explore(b, mystop)
        if self.violated and self.stop_on_violation:
            raise PathEnd('aborted')
        if not arrived:
            raise PathEnd('merged-away')
        if len(arrived) == 1:
            m = arrived
        else:
            m = self.try_merge(base_len, arrived, fn, J, base_mem)
        for x in m:
            if J == -1:
                x.just_returned = True
            else:
                x.just_entered = True
        # hand the (merged) successors back to the enclosing exploration loop
        return m

    # ------------------------------------------------------------ calls
    def exec_call(self, st, fr, ins):
        args = [self.val(st, fr, a) for a in ins['args']]
        if 'invoke' in ins:
            recv = self.val(st, fr, ins['recv'])
            if recv is None:
                raise GoPanic('nil interface method call')
            if not isinstance(recv, Iface):
                raise Unsupported('invoke on %r' % (recv,))
            ts = self.prog.types[recv.tid]['s']
            key = ('invoke', ts, ins['invoke'])
            f = self.intr.get(key)
            if f is not None:
                return f(self, st, fr, ins, [recv.val] + args)
            mm = self.prog.methods.get(ts)
            if mm is None or ins['invoke'] not in mm:
                raise Unsupported('invoke %s.%s' % (ts, ins['invoke']))
            return self.do_call(st, fr, ins, mm[ins['invoke']], [recv.val] + args)
        fo = ins['fn']
        if fo['k'] == 'b':
            return self.builtin(st, fr, ins, fo['n'], args)
        if fo['k'] == 'f':
            return self.do_call(st, fr, ins, fo['n'], args)
        f = self.val(st, fr, fo)
        if isinstance(f, Closure):
            return self.do_call(st, fr, ins, f.fn, args, f.binds)
        raise Unsupported('call through %r' % (f,))

    def builtin(self, st, fr, ins, name, args):
        if name == 'len':
            x = args[0]
            if x is None:
                return 0
            if isinstance(x, Str):
                return len(x.b)
            if isinstance(x, Slice):
                return x.len
            if isinstance(x, list):
                return len(x)
            raise Unsupported('len of %r' % (x,))
        if name == 'cap':
            x = args[0]
            if x is None:
                return 0
            if isinstance(x, Slice):
                return x.cap
            raise Unsupported('cap')
        if name == 'append':
            s, more = args
            if isinstance(more, Str):
                new = list(more.b)
            elif more is None:
                new = []
            elif isinstance(more, Slice):
                arr = self._load_path(st, st.mem[more.oid], more.base)
                new = [arr[more.off + i] for i in range(more.len)]
            else:
                raise Unsupported('append arg')
            if s is None:
                s = Slice(None, (), 0, 0, 0)
            if not new:
                return s
            n = s.len + len(new)
            if n <= s.cap:
                arr = list(self._load_path(st, st.mem[s.oid], s.base))
                for i, v in enumerate(new):
                    arr[s.off + s.len + i] = v
                st.mem[s.oid] = self._store_path(st, st.mem[s.oid], s.base, arr)
                return Slice(s.oid, s.base, s.off, n, s.cap)
            old = []
            if s.oid is not None:
                arr = self._load_path(st, st.mem[s.oid], s.base)
                old = [arr[s.off + i] for i in range(s.len)]
            cap = max(n, 2 * s.cap, 8)
            et = self.prog.types[ins['t']]['elem']
            z = self.zero(et)
            data = old + new + [z] * (cap - n)
            oid = self.alloc(st, data)
            return Slice(oid, (), 0, n, cap)
        if name == 'copy':
            dst, src = args
            if isinstance(src, Str):
                sv = list(src.b)
            elif src is None:
                sv = []
            else:
                arr = self._load_path(st, st.mem[src.oid], src.base)
                sv = [arr[src.off + i] for i in range(src.len)]
            if dst is None:
                return 0
            n = min(dst.len, len(sv))
            arr = list(self._load_path(st, st.mem[dst.oid], dst.base))
            for i in range(n):
                arr[dst.off + i] = sv[i]
            st.mem[dst.oid] = self._store_path(st, st.mem[dst.oid], dst.base, arr)
            return n
        if name == 'min' or name == 'max':
            a, b = args
            c = T.le(a, b) if name == 'min' else T.le(b, a)
            return T.ite(c, a, b)
        if name == 'ssa:wrapnilchk':
            if args[0] is None:
                raise GoPanic('nil receiver')
            return args[0]
        if name == 'SliceData':
            return args[0]
        if name == 'String':
            s, n = args
            n = self.concrete(st, n)
            if s is None or n == 0:
                return Str(())
            arr = self._load_path(st, st.mem[s.oid], s.base)
            return Str([arr[s.off + k] for k in range(n)])
        if name == 'recover':
            return None
        if name == 'print' or name == 'println':
            return None
        raise Unsupported('builtin ' + name)

    # ------------------------------------------------------------ conversions etc.
    def convert(self, st, fr, ins):
        x = self.val(st, fr, ins['x'])
        src = self.prog.types[ins['x']['t']]
        dst = self.prog.types[ins['t']]
        sk, dk = src['k'], dst['k']
        if sk == 'int' and dk == 'int':
            return T.wrap(x, dst['bits'], dst['signed'])
        if sk == 'string' and dk == 'slice':
            data = list(x.b)
            oid = self.alloc(st, data)
            return Slice(oid, (), 0, len(data), len(data))
        if sk == 'slice' and dk == 'string':
            if x is None:
                return Str(())
            arr = self._load_path(st, st.mem[x.oid], x.base)
            return Str([arr[x.off + i] for i in range(x.len)])
        if sk == 'int' and dk == 'string':
            v = self.concrete(st, x)
            return Str(chr(v).encode('utf-8') if 0 <= v < 0x110000 else b'\xef\xbf\xbd')
        if sk == 'string' and dk == 'string':
            return x
        if sk == 'slice' and dk == 'slice':
            return x
        if sk == 'slice' and dk == 'string':
            return Opaque('string')
        from intrinsics import convert_float
        r = convert_float(self, st, x, src, dst)
        if r is not NotImplemented:
            return r
        raise Unsupported('convert %s -> %s' % (src['s'], dst['s']))

    def type_assert(self, st, fr, ins):
        x = self.val(st, fr, ins['x'])
        at = self.prog.types[ins['asserted']]
        ok = False
        val = None
        if isinstance(x, Iface):
            if at['k'] == 'iface':
                ok = True   # assume interface satisfaction (only used for error/Stringer style asserts)
                ts = self.prog.types[x.tid]['s']
                mm = self.prog.methods.get(ts, {})
                val = x
                if at['s'] not in ('any', 'interface{}', 'error') and not mm:
                    ok = False
            else:
                ok = self.prog.types[x.tid]['s'] == at['s']
                val = x.val if ok else self.zero(ins['asserted'])
        else:
            val = self.zero(ins['asserted']) if at['k'] != 'iface' else None
        if ins['commaok']:
            return (val, ok)
        if not ok:
            raise GoPanic('interface conversion failed')
        return val

    def slice_op(self, st, fr, ins):
        x = self.val(st, fr, ins['x'])
        lo = self.val(st, fr, ins['low']) if ins['low'] else None
        hi = self.val(st, fr, ins['high']) if ins['high'] else None
        mx = self.val(st, fr, ins['max']) if ins['max'] else None
        xt = self.prog.types[ins['x']['t']]
        lo = 0 if lo is None else self.concrete(st, lo)
        if hi is not None:
            hi = self.concrete(st, hi)
        if mx is not None:
            mx = self.concrete(st, mx)
        if xt['k'] == 'string':
            n = len(x.b)
            hi = n if hi is None else hi
            if not (0 <= lo <= hi <= n):
                raise GoPanic('slice bounds out of range [%d:%d] with length %d' % (lo, hi, n))
            return Str(x.b[lo:hi])
        if xt['k'] == 'ptr':
            # pointer to array
            n = self.prog.types[xt['elem']]['len']
            hi = n if hi is None else hi
            mx = n if mx is None else mx
            if not (0 <= lo <= hi <= mx <= n):
                raise GoPanic('slice bounds out of range [%d:%d:%d] with capacity %d' % (lo, hi, mx, n))
            return Slice(x.oid, x.path, lo, hi - lo, mx - lo)
        if xt['k'] == 'slice':
            if x is None:
                x = Slice(None, (), 0, 0, 0)
            hi = x.len if hi is None else hi
            mx = x.cap if mx is None else mx
            if not (0 <= lo <= hi <= mx <= x.cap):
                raise GoPanic('slice bounds out of range [%d:%d:%d] with capacity %d' % (lo, hi, mx, x.cap))
            if x.oid is None:
                return None
            return Slice(x.oid, x.base, x.off + lo, hi - lo, mx - lo)
        raise Unsupported('slice of ' + xt['k'])

    # ------------------------------------------------------------ binary operators
    def binop(self, st, fr, ins):
        o = ins['bop']
        x = self.val(st, fr, ins['x'])
        y = self.val(st, fr, ins['y'])
        xt = self.prog.types[ins['x']['t']]
        k = xt['k']
        if o in ('==', '!='):
            if k == 'iface' or k == 'ptr' or k == 'slice' or k == 'func' or k == 'nil':
                if x is None or y is None:
                    r = (x is None and y is None)
                else:
                    r = self.veq(x, y)
            else:
                r = self.veq(x, y)
            return r if o == '==' else T.bnot(r)
        if k == 'string':
            if o == '+':
                if isinstance(x, Opaque) or isinstance(y, Opaque):
                    return Opaque('string')
                return Str(x.b + y.b)
            raise Unsupported('string op ' + o)
        if k == 'float':
            from intrinsics import float_binop
            return float_binop(self, st, o, x, y, xt)
        if k == 'bool':
            raise Unsupported('bool op ' + o)
        if o == '<':
            return T.lt(x, y)
        if o == '<=':
            return T.le(x, y)
        if o == '>':
            return T.gt(x, y)
        if o == '>=':
            return T.ge(x, y)
        bits, sg = self.int_type(ins['t'])
        if o == '+':
            return T.wrap(T.add(x, y), bits, sg)
        if o == '-':
            return T.wrap(T.sub(x, y), bits, sg)
        if o == '*':
            return T.wrap(T.mul(x, y), bits, sg)
        if o in ('/', '%'):
            if not isinstance(y, int):
                if self.branch(st, T.eq(y, 0)):
                    raise GoPanic('integer divide by zero')
                ylo, _ = T.iv(y)
                xlo, _ = T.iv(x)
                if not (ylo is not None and ylo >= 0 and xlo is not None and xlo >= 0):
                    raise Unsupported('signed symbolic division')
                return T.fdiv(x, y) if o == '/' else T.fmod(x, y)
            if y == 0:
                raise GoPanic('integer divide by zero')
            if sg:
                r = T.tdivc(x, y) if o == '/' else T.tmodc(x, y)
                return T.wrap(r, bits, sg)
            return T.divc(x, y) if o == '/' else T.modc(x, y)
        if o in ('<<', '>>'):
            ybits, ysg = self.int_type(ins['y']['t'])
            if not isinstance(y, int):
                y = self.concrete(st, y)
            if y < 0:
                raise GoPanic('negative shift amount')
            if o == '<<':
                if y >= bits:
                    return 0
                return T.wrap(T.mulc(x, 1 << y), bits, sg)
            if y >= bits:
                if sg:
                    return T.ite(T.lt(x, 0), -1, 0)
                return 0
            return T.divc(x, 1 << y)
        if o in ('&', '|', '^', '&^'):
            if sg:
                ux, uy = T.wrap(x, bits, False), T.wrap(y, bits, False)
            else:
                ux, uy = x, y
            if o == '&':
                r = T.and_(ux, uy, bits)
            elif o == '|':
                r = T.or_(ux, uy, bits)
            elif o == '^':
                r = T.xor_(ux, uy, bits)
            else:
                if isinstance(uy, int):
                    r = T.and_(ux, ((1 << bits) - 1) & ~uy, bits)
                else:
                    r = T.sub(ux, T.and_(ux, uy, bits))
            return T.wrap(r, bits, sg) if sg else r
        raise Unsupported('binop ' + o)
