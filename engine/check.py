#!/usr/bin/env python3-vt
"""check.py <PROPERTY> [--tier quick|thorough]

Decides one property of /repo's *current working tree* by bounded symbolic execution of the real
code (go/ssa -> SMT-LIB, see DESIGN.md).  Exit 0: every obligation inside the stated bounds was
discharged (unsat) or is a listed known finding; exit 1 + "VIOLATION property=<id> replay=<path>":
a solver counterexample that reproduces against the natively compiled code.
"""
import json
import multiprocessing as mp
import os
import random
import re
import shutil
import subprocess
import sys
import tempfile
import time

HERE = os.path.dirname(os.path.abspath(__file__))
ROOT = os.path.dirname(HERE)
sys.path.insert(0, HERE)

import terms as T  # noqa
import solver as S  # noqa
from program import Program  # noqa
import executor as E  # noqa
import vx  # noqa

REPO = os.environ.get('VERIF_REPO', '/repo')
GOENV = dict(os.environ, GOFLAGS='-mod=mod', GOPROXY='off', GOSUMDB='off', GOTOOLCHAIN='local')

PROG = None
SSA_PATH = None


def _init_worker(path):
    global PROG
    PROG = Program(path)


def lemma_args(harness, tier='quick', seed=1):
    """argument sets for parametrised kernel lemmas"""
    if harness == 'vh_lemma_Decimal_digits':
        import props
        return [[0, 0]] + [[L, z] for (L, z) in props.lz_pairs(tier, seed)]
    if harness.endswith('_lsh') or harness.endswith('_rsh'):
        bits = int(re.search(r'uint(\d+)_', harness).group(1))
        return [[o] for o in range(0, bits + 3)]
    if harness.endswith('uint128_div'):
        return [[lz] for lz in range(-1, 64)]
    return [[]]


def run_job(job):
    harness, args, opts = job
    t0 = time.time()
    S.STATS.update({'inproc_calls': 0, 'inproc_time': 0.0, 'portfolio_calls': 0, 'portfolio_time': 0.0,
                    'by_solver': {}, 'solver_time': {}})
    ex = vx.make_executor(PROG, harness, opts)
    for k in opts.get('no_summaries', ()):
        ex.summaries.pop(k, None)
    err = None
    try:
        ex.run(harness, args, deadline=t0 + opts.get('job_budget', 600))
    except E.Unsupported as e:
        err = 'unsupported: %s' % e
    except RecursionError:
        err = 'recursion limit'
    obs = []
    for ob in ex.obligations:
        o = {k: v for k, v in ob.items() if k != 'model'}
        if opts.get('best_effort') and o.get('verdict') not in ('sat', 'unsat'):
            # a time-boxed bug-hunting job claims nothing about what it could not decide
            ex.ended['best-effort-skipped'] = ex.ended.get('best-effort-skipped', 0) + 1
            continue
        obs.append(o)
    full = PROG.pkg + '.' + harness
    enc = set(ex.encoded)
    enc.add(full)
    return {
        'harness': harness, 'args': args, 'error': err, 'obligations': obs,
        'paths': ex.paths, 'ended': ex.ended, 'trivial': ex.trivial_checks, 'merges': ex.merges, 'forks': ex.forks,
        'insns': ex.insn_count, 'encoded': sorted(enc), 'used_summaries': sorted(ex.used_summaries),
        'reach': ex.reach, 'purity': ex.purity_violations[:10], 'global_reads': sorted(ex.global_reads),
        'wall': round(time.time() - t0, 3),
        'solver': {'inproc_calls': S.STATS['inproc_calls'], 'inproc_time': round(S.STATS['inproc_time'], 3),
                   'portfolio_calls': S.STATS['portfolio_calls'], 'portfolio_time': round(S.STATS['portfolio_time'], 3),
                   'by_solver': dict(S.STATS['by_solver']), 'solver_time': {k: round(v, 3) for k, v in S.STATS['solver_time'].items()}},
    }


class RandomInputs(dict):
    """concrete_inputs provider: draws (and records) a biased random value per nondet name"""

    def __init__(self, rng):
        super().__init__()
        self.rng = rng

    def get(self, name, default=None):
        if name not in self:
            r = self.rng.random()
            if r < 0.15:
                v = self.rng.choice([0, 1, 2, 5, 9, 10, 255, 2 ** 63, 2 ** 64 - 1, 2 ** 49 - 1, 0x7800 << 48, 0x7c00 << 48, 0x3040 << 48])
            elif r < 0.45:
                v = self.rng.getrandbits(self.rng.choice([3, 8, 16, 32, 50, 60]))
            else:
                v = self.rng.getrandbits(64)
            self[name] = v
        return self[name]


def run_validation(job):
    """translator validation: run the harness concretely in the SSA interpreter on random inputs"""
    harness, args, seed, n = job[:4]
    job_opts = job[4] if len(job) > 4 else None
    rng = random.Random(seed)
    cases = []
    tries = 0
    while len(cases) < n and tries < n * 6:
        tries += 1
        ex = vx.make_executor(PROG, harness, {'stop_on_violation': False})
        ex.summaries = {}          # the real bodies, not the contracts
        ex.cuts = {}
        inp = RandomInputs(rng)
        ex.concrete_inputs = inp
        ex.observed = []
        ex.concrete_failures = []
        try:
            ex.run(harness, args)
        except E.Unsupported as e:
            return {'harness': harness, 'args': args, 'error': 'unsupported: %s' % e, 'cases': []}
        except Exception as e:  # noqa
            return {'harness': harness, 'args': args, 'error': 'interp error: %r' % e, 'cases': []}
        if ex.ended.get('assume-false'):
            continue
        # wrap inputs to their type ranges as the interpreter used them
        cases.append({'harness': harness, 'args': args, 'inputs': {k: ('true' if v is True else 'false' if v is False else str(v)) for k, v in inp.items()},
                      'observed': list(ex.observed), 'failures': list(ex.concrete_failures),
                      'panic': bool([k for k in ex.ended if k.startswith('panic')])})
    # shadow evaluation: re-run the *symbolic* exploration while evaluating every constructed term under one of the
    # concrete inputs (on the paths that input takes) and compare with direct concrete arithmetic and with the
    # term's interval: catches unsound simplifications / intervals in the encoder itself
    shadow = []
    if cases and job_opts is not None and os.environ.get('VERIF_SHADOW'):
        T.SHADOW_ERRORS.clear()
        T.enable_shadow({k: (v == 'true') if v in ('true', 'false') else int(v) for k, v in cases[0]['inputs'].items()})
        try:
            o = dict(job_opts)
            o.update({'stop_on_violation': False, 'timeout': 5})
            ex = vx.make_executor(PROG, harness, o)
            ex.run(harness, args, deadline=time.time() + 45)
        except Exception:  # noqa
            pass
        finally:
            T.SHADOW = None
        shadow = [repr(e)[:400] for e in T.SHADOW_ERRORS[:5]]
    return {'harness': harness, 'args': args, 'error': None, 'cases': cases, 'shadow_errors': shadow}


# ---------------------------------------------------------------- native replay
def gen_registry(tmpdir):
    hdir = os.path.join(ROOT, 'harness')
    cases = []
    for fn in sorted(os.listdir(hdir)):
        if not fn.endswith('.go') or fn.endswith('_test.go'):
            continue
        src = open(os.path.join(hdir, fn)).read()
        for m in re.finditer(r'^func (vh_\w+)\(([^)]*)\)', src, re.M):
            name, params = m.group(1), m.group(2).strip()
            n = 0
            if params:
                for part in params.split(','):
                    n += 1
            cases.append((name, n))
    lines = ['package decimal128', '', 'func verifDispatch(name string, a []int) bool {', '\tswitch name {']
    for name, n in cases:
        call = '%s(%s)' % (name, ', '.join('a[%d]' % i for i in range(n)))
        lines.append('\tcase "%s":\n\t\tif len(a) < %d {\n\t\t\treturn false\n\t\t}\n\t\t%s' % (name, n, call))
    lines += ['\tdefault:', '\t\treturn false', '\t}', '\treturn true', '}', '']
    path = os.path.join(tmpdir, 'zz_verif_registry_test.go')
    with open(path, 'w') as f:
        f.write('\n'.join(lines))
    return path


def native_run(cases, tmpdir, timeout=900):
    """run the given cases natively (go test -overlay) -> list of outcomes (or None on build failure)"""
    if not cases:
        return []
    hdir = os.path.join(ROOT, 'harness')
    repl = {}
    for fn in os.listdir(hdir):
        if fn.endswith('.go'):
            repl[os.path.join(REPO, fn)] = os.path.join(hdir, fn)
    reg = gen_registry(tmpdir)
    repl[os.path.join(REPO, 'zz_verif_registry_test.go')] = reg
    ov = os.path.join(tmpdir, 'overlay.json')
    with open(ov, 'w') as f:
        json.dump({'Replace': repl}, f)
    cf = os.path.join(tmpdir, 'cases.json')
    with open(cf, 'w') as f:
        json.dump([{'harness': c['harness'], 'args': c['args'], 'inputs': c['inputs']} for c in cases], f)
    env = dict(GOENV, VERIF_REPLAY=cf)
    cmd = ['go', 'test', '-v', '-vet=off', '-count=1', '-tags=verif', '-overlay', ov, '-run', '^TestVerifReplay$', '-timeout', '%ds' % timeout, '.']
    try:
        p = subprocess.run(cmd, cwd=REPO, env=env, capture_output=True, text=True, timeout=timeout + 60)
    except subprocess.TimeoutExpired:
        return None
    outs = []
    for line in p.stdout.split('\n'):
        if line.startswith('VERIF-OUTCOME '):
            outs.append(json.loads(line[len('VERIF-OUTCOME '):]))
    if len(outs) != len(cases):
        sys.stderr.write('native replay failed:\n' + p.stdout[-3000:] + p.stderr[-3000:] + '\n')
        return None
    return outs


def native_fptable(tmpdir, timeout=600):
    """float64 reference classes (C15): run TestVerifFPTable natively"""
    hdir = os.path.join(ROOT, 'harness')
    repl = {}
    for fn in os.listdir(hdir):
        if fn.endswith('.go'):
            repl[os.path.join(REPO, fn)] = os.path.join(hdir, fn)
    repl[os.path.join(REPO, 'zz_verif_registry_test.go')] = gen_registry(tmpdir)
    ov = os.path.join(tmpdir, 'overlay_fp.json')
    with open(ov, 'w') as f:
        json.dump({'Replace': repl}, f)
    env = dict(GOENV, VERIF_FPTABLE='1')
    cmd = ['go', 'test', '-v', '-vet=off', '-count=1', '-tags=verif', '-overlay', ov, '-run', '^TestVerifFPTable$', '.']
    p = subprocess.run(cmd, cwd=REPO, env=env, capture_output=True, text=True, timeout=timeout)
    tab = {'bin': {}, 'un': {}, 'pow': {}}
    for line in p.stdout.split('\n'):
        if line.startswith('VERIF-FP bin '):
            _, _, op, i, j, c = line.split()
            tab['bin'][(int(op), int(i), int(j))] = int(c)
        elif line.startswith('VERIF-FP pow '):
            _, _, i, j, cc, v = line.split()
            tab['pow'][(int(i), int(j))] = (int(cc), int(v))
        elif line.startswith('VERIF-FP un '):
            _, _, k, i, c, v = line.split()
            tab['un'][(int(k), int(i))] = (int(c), int(v))
    if not tab['bin']:
        sys.stderr.write('float table run failed:\n' + p.stdout[-2000:] + p.stderr[-2000:])
        return None
    return tab


# ---------------------------------------------------------------- known findings
def load_known():
    p = os.path.join(ROOT, 'known_findings.json')
    if not os.path.exists(p):
        return []
    with open(p) as f:
        return json.load(f).get('findings', [])


def finding_matches(k, prop, ob, job):
    if k.get('status') == 'fixed':
        return False
    if k['property'] != prop:
        return False
    if k.get('harness') and k['harness'] != job['harness']:
        return False
    if k.get('msg') and k['msg'] not in ob.get('msg', ''):
        return False
    if k.get('args') is not None and list(k['args']) != list(job['args']):
        return False
    cond = k.get('when')
    if cond:
        env = {}
        for name, v in (ob.get('inputs') or {}).items():
            env[re.sub(r'\W', '_', name)] = v
        env['args'] = job['args']
        try:
            return bool(eval(cond, {'__builtins__': {}}, env))
        except Exception:
            return False
    return True


# ---------------------------------------------------------------- main
def main():
    import props
    argv = sys.argv[1:]
    prop = argv[0]
    tier = os.environ.get('VERIF_TIER', 'quick')
    if '--tier' in argv:
        tier = argv[argv.index('--tier') + 1]
    seed = int(os.environ.get('VERIF_SEED', '1') or 1)
    nproc = int(os.environ.get('VERIF_PROCS', '0') or 0) or max(2, (os.cpu_count() or 4))
    t_start = time.time()
    spec = props.PROPS[prop]
    tmpbase = '/dev/shm' if os.path.isdir('/dev/shm') else tempfile.gettempdir()
    tmpdir = tempfile.mkdtemp(prefix='verif_%s_' % prop, dir=tmpbase)
    os.environ['VERIF_TMP'] = tmpdir
    try:
        rc = _main(prop, tier, seed, nproc, spec, tmpdir, t_start)
    finally:
        shutil.rmtree(tmpdir, ignore_errors=True)
    sys.exit(rc)


def _main(prop, tier, seed, nproc, spec, tmpdir, t_start):
    global PROG
    ssa = vx.build_ssa(os.path.join(tmpdir, 'ssa.json'))
    PROG = Program(ssa)
    base_opts = {'timeout': spec.get('timeout', {}).get(tier, 60 if tier == 'quick' else 300),
                 'job_budget': spec.get('job_budget', {}).get(tier, 300 if tier == 'quick' else 3000),
                 'stop_on_violation': True}
    if spec.get('needs_fptable'):
        import props as _props
        _props.FPTABLE = native_fptable(tmpdir)
        if _props.FPTABLE is None:
            print('ERROR: native float64 reference table could not be produced')
            return 0
    jobs = []
    for j in spec['jobs'](tier, seed):
        harness, args = j[0], j[1]
        o = dict(base_opts)
        if len(j) > 2 and j[2]:
            o.update(j[2])
        jobs.append((harness, list(args), o))
    # nproc workers; each obligation may run two solver processes, so use half the cores for workers
    workers = max(1, min(len(jobs), spec.get('workers', nproc)))
    ctx = mp.get_context('fork')
    results = []
    with ctx.Pool(workers, initializer=_init_worker, initargs=(ssa,)) as pool:
        for r in pool.imap_unordered(run_job, jobs, chunksize=1):
            results.append(r)
        # kernel lemmas for every contract that was used (transitively)
        done = set()
        lemma_results = []
        pending = set()
        for r in results:
            pending.update(r['used_summaries'])
        while pending:
            ljobs = []
            for callee in sorted(pending):
                done.add(callee)
                if any(callee.endswith(a) for a in spec.get('assumed_contracts', ())):
                    continue        # stated as an assumption in the evidence: no lemma is run for it
                if callee == 'compose/decompose round trip':
                    h = 'vh_lemma_compose'
                else:
                    m = re.match(r'\(%s\.(\w+)\)\.(\w+)$' % re.escape(PROG.pkg), callee)
                    h = 'vh_lemma_%s_%s' % (m.group(1), m.group(2))
                if PROG.pkg + '.' + h not in PROG.funcs:
                    lemma_results.append({'harness': h, 'args': [], 'error': 'no lemma harness for contract of ' + callee,
                                          'obligations': [], 'paths': 0, 'ended': {}, 'trivial': 0, 'merges': 0, 'forks': 0,
                                          'insns': 0, 'encoded': [], 'used_summaries': [], 'reach': {}, 'purity': [],
                                          'global_reads': [], 'wall': 0, 'solver': {}})
                    continue
                for a in lemma_args(h, tier, seed):
                    o = dict(base_opts)
                    o['timeout'] = max(o['timeout'], 60)
                    ljobs.append((h, a, o))
            pending = set()
            for r in pool.imap_unordered(run_job, ljobs, chunksize=4):
                lemma_results.append(r)
                for c in r['used_summaries']:
                    if c not in done:
                        pending.add(c)
        # translator validation (concrete differential runs interpreter vs native)
        vjobs = []
        seen_h = {}
        for (h, a, o) in jobs:
            k = seen_h.get(h, 0)
            if k < spec.get('validate_per_harness', 2):
                seen_h[h] = k + 1
                vjobs.append((h, a, seed * 1000 + len(vjobs), spec.get('validate_samples', 6), {k: v for k, v in o.items() if k in ('cuts',)}))
        vres = list(pool.imap_unordered(run_validation, vjobs, chunksize=1)) if spec.get('validate', True) else []

    all_results = results + lemma_results
    # ---------------------------------------------------------------- collect
    sat_cases = []
    undecided = []
    errors = []
    n_oblig = n_unsat = n_trivial = 0
    for r in all_results:
        if r['error']:
            errors.append('%s%s: %s' % (r['harness'], r['args'], r['error']))
        n_trivial += r['trivial']
        for ob in r['obligations']:
            n_oblig += 1
            if ob['verdict'] == 'unsat':
                n_unsat += 1
            elif ob['verdict'] == 'sat':
                sat_cases.append((r, ob))
            else:
                undecided.append({'harness': r['harness'], 'args': r['args'], 'kind': ob['kind'], 'msg': ob['msg'], 'verdict': ob['verdict']})
        for p in r['purity']:
            errors.append('purity: ' + p)
    # ---------------------------------------------------------------- native: validation + replay
    vcases = []
    for v in vres:
        if v['error']:
            errors.append('validation %s%s: %s' % (v['harness'], v['args'], v['error']))
        vcases.extend(v['cases'])
        for se in v.get('shadow_errors') or []:
            print('SHADOW (development self-check, guard-insensitive): %s%s: %s' % (v['harness'], v['args'], se))
    rcases = []
    for r, ob in sat_cases:
        rcases.append({'harness': r['harness'], 'args': r['args'], 'inputs': {k: str(v).lower() if isinstance(v, bool) else str(v) for k, v in (ob.get('inputs') or {}).items()}})
    outs = native_run(vcases + rcases, tmpdir)
    validated = 0
    mismatches = []
    violations = []
    known_hits = []
    engine_mismatch = []
    known = load_known()
    if outs is None:
        errors.append('native build/replay failed')
    else:
        for c, o in zip(vcases, outs[:len(vcases)]):
            ok = (c['observed'] == (o.get('observed') or [])) and (sorted(c['failures']) == sorted(o.get('failures') or [])) \
                and (c['panic'] == bool(o.get('panic')))
            if ok:
                validated += 1
            else:
                mismatches.append({'case': {k: c[k] for k in ('harness', 'args', 'inputs')}, 'interp': {'observed': c['observed'], 'failures': c['failures'], 'panic': c['panic']}, 'native': o})
        rdir = os.path.join(os.environ.get('VERIF_OUT', ROOT), 'replays', prop)
        # A model that violates an intermediate obligation (e.g. the sticky flag handed to the rounding kernel) may
        # give a correct end result for the rounding mode the solver happened to pick.  Before calling it a
        # mismatch, replay the same inputs under every rounding mode / sign: any variant that fails natively is a
        # genuine concrete counterexample.
        rouns = outs[len(vcases):]
        variants = []
        for i, (c, o) in enumerate(zip(rcases, rouns)):
            if bool(o.get('failures')) or bool(o.get('panic')):
                continue
            keys = [k for k in c['inputs'] if k in ('mode', 'drm')]
            if len(variants) > 600:
                continue
            # the solver is free to pick operand exponents at the far ends of the range, where a wrong coefficient
            # is masked by underflow/overflow: also replay with every Decimal operand's exponent moved to the middle
            bases = [dict(c['inputs'])]
            for alt in (sat_cases[i][1].get('alt_inputs') or []):
                bases.append({k: str(v).lower() if isinstance(v, bool) else str(v) for k, v in alt.items()})
            mid = dict(c['inputs'])
            changed = False
            for k in list(mid):
                if k.endswith('hi') and (k[:-2] + 'lo') in mid:
                    try:
                        hi = int(mid[k])
                    except ValueError:
                        continue
                    if (hi >> 61) & 3 != 3 and (hi >> 58) & 0x1f < 0x1e:
                        nh = (hi & 0x8001FFFFFFFFFFFF) | (6176 << 49)
                        if nh != hi:
                            mid[k] = str(nh)
                            changed = True
            if changed:
                bases.append(mid)
            # de-duplicate
            seen_b = set()
            ub = []
            for b in bases:
                key = tuple(sorted(b.items()))
                if key not in seen_b:
                    seen_b.add(key)
                    ub.append(b)
            bases = ub
            for bi, base in enumerate(bases):
                if not keys:
                    if bi > 0:
                        variants.append((i, {'harness': c['harness'], 'args': c['args'], 'inputs': dict(base)}))
                    continue
                for m in range(6):
                    for flip in (False, True):
                        inp = dict(base)
                        for k in keys:
                            inp[k] = str(m)
                        if flip:
                            if 'neg' in inp:
                                inp['neg'] = 'false' if inp['neg'] == 'true' else 'true'
                            else:
                                continue
                        variants.append((i, {'harness': c['harness'], 'args': c['args'], 'inputs': inp}))
        if variants:
            vouts = native_run([v for _, v in variants], tmpdir) or []
            for (i, v), o in zip(variants, vouts):
                if (bool(o.get('failures')) or bool(o.get('panic'))) and not (rouns[i].get('failures') or rouns[i].get('panic')):
                    rouns[i] = o
                    rcases[i] = v
        for i, ((r, ob), c, o) in enumerate(zip(sat_cases, rcases, rouns)):
            reproduced = bool(o.get('failures')) or bool(o.get('panic'))
            if not reproduced:
                engine_mismatch.append({'harness': r['harness'], 'args': r['args'], 'msg': ob['msg'], 'inputs': c['inputs'], 'native': o})
                continue
            k = next((k for k in known if finding_matches(k, prop, ob, r)), None)
            if k is not None:
                known_hits.append((k, r, ob))
                continue
            os.makedirs(rdir, exist_ok=True)
            path = os.path.join(rdir, '%s_%d.json' % (r['harness'], i))
            with open(path, 'w') as f:
                json.dump({'property': prop, 'harness': r['harness'], 'args': r['args'], 'inputs': c['inputs'],
                           'obligation': {'kind': ob['kind'], 'msg': ob['msg'], 'pos': ob.get('pos')},
                           'native_outcome': o,
                           'how_to_replay': 'python3-vt /verif/engine/check.py --replay %s' % path}, f, indent=1)
            violations.append((path, r, ob, o))
    # ---------------------------------------------------------------- evidence
    wall = time.time() - t_start
    encoded = sorted(set(x for r in all_results for x in r['encoded']))
    fn_sizes = {f: PROG.instr_count(f) for f in encoded}
    solver_tot = {}
    for r in all_results:
        for k, v in (r.get('solver') or {}).items():
            if isinstance(v, dict):
                d = solver_tot.setdefault(k, {})
                for kk, vv in v.items():
                    d[kk] = round(d.get(kk, 0) + vv, 3)
            else:
                solver_tot[k] = round(solver_tot.get(k, 0) + v, 3)
    distinct = set()
    samples = []
    for r in all_results:
        for i, ob in enumerate(r['obligations']):
            if ob['verdict'] in ('sat', 'unsat') and ob.get('nodes', 0) > 0:
                distinct.add((r['harness'], tuple(r['args']), ob.get('pos'), ob.get('msg'), i))
            if len(samples) < 12 and ob.get('solver') not in (None,) and (len(samples) < 4 or ob.get('solver') != 'z3-inproc'):
                samples.append({'harness': r['harness'], 'args': r['args'], 'obligation': ob['msg'], 'kind': ob['kind'],
                                'verdict': ob['verdict'], 'solver': ob.get('solver'), 'times_s': ob.get('times'), 'smt_nodes': ob.get('nodes')})
    if not samples:
        for r in all_results[:5]:
            samples.append({'harness': r['harness'], 'args': r['args'], 'paths': r['paths'], 'checks_folded_by_normaliser': r['trivial']})
    reach = {}
    for r in all_results:
        for k, v in r['reach'].items():
            reach[k] = reach.get(k, 0) + v
    vac = spec.get('must_reach', [])
    vac_missing = [m for m in vac if m not in reach]
    if vac_missing and not violations:
        errors.append('vacuity: reach markers never reached: %s' % vac_missing)
    ok = not violations and not errors and not undecided and not mismatches and not engine_mismatch
    ev = {
        'property_id': prop, 'tier': tier, 'seed': seed, 'level': 'model_checking',
        'coverage': {
            'states': sum(r['paths'] for r in all_results) or 1,
            'transitions': sum(r['insns'] for r in all_results) or 1,
            'traces_validated_against_impl': validated,
            'samples': samples,
            'evaluations': n_oblig + n_trivial,
            'distinct_nontrivial': len(distinct),
            'rule': 'one evaluation = one proof obligation (path condition AND NOT assertion, or path condition of a panic site) '
                    'of one explored control path of one enumerated configuration; non-trivial = it contains symbolic inputs and '
                    'was decided by an SMT solver (not folded by the encoder); distinct by (harness, parameters, source position, message, index)',
            'obligations': n_oblig + n_trivial, 'discharged': n_unsat + n_trivial,
            'discharged_by_solver_unsat': n_unsat, 'folded_true_by_encoder': n_trivial,
            'sat_counterexamples': len(sat_cases), 'sat_reproduced_natively': len(violations) + len(known_hits),
            'known_findings_hit': len(known_hits), 'undecided': undecided[:50], 'undecided_count': len(undecided),
            'engine_mismatches': engine_mismatch[:10],
            'configurations': len(jobs), 'lemma_configurations': len(lemma_results),
            'symbolic_paths': sum(r['paths'] for r in all_results), 'state_merges': sum(r['merges'] for r in all_results),
            'functions_encoded': fn_sizes, 'contracts_used': sorted(set(c for r in all_results for c in r['used_summaries'])),
            'reach_markers': reach, 'solver_stats': solver_tot, 'bounds': spec.get('bounds', {}).get(tier, spec.get('bounds', {}).get('all', '')),
            'outside_bounds': spec.get('outside', ''),
            'validation_mismatches': mismatches[:5], 'errors': errors[:30],
            'trusted_base': ['go/ssa construction (x/tools v0.29.0)', 'engine/terms.py normaliser and engine/executor.py semantics of SSA instructions',
                             'cvc5 1.0.3, z3 5.1.0', 'math/bits model in engine/intrinsics.py'] + spec.get('trusted', []),
            'exhaustive': False,
        },
        'assumptions': spec.get('assumptions', []),
        'wall_s': round(wall, 2), 'violations': len(violations),
    }
    evdir = os.path.join(os.environ.get('VERIF_OUT', ROOT), 'evidence')
    os.makedirs(evdir, exist_ok=True)
    with open(os.path.join(evdir, prop + '.json'), 'w') as f:
        json.dump(ev, f, indent=1, default=str)
    # ---------------------------------------------------------------- report
    print('%s tier=%s configs=%d lemmas=%d paths=%d obligations=%d unsat=%d folded=%d sat=%d undecided=%d validated=%d wall=%.1fs' % (
        prop, tier, len(jobs), len(lemma_results), ev['coverage']['symbolic_paths'], n_oblig + n_trivial, n_unsat, n_trivial,
        len(sat_cases), len(undecided), validated, wall))
    if os.environ.get('VERIF_VERBOSE'):
        for r in sorted(all_results, key=lambda r: -r['wall'])[:12]:
            print('  slow job %s%s %.1fs paths=%d solver=%s' % (r['harness'], r['args'], r['wall'], r['paths'], r['solver']))
    for k, r, ob in known_hits:
        print('KNOWN-FINDING: property=%s %s (%s%s: %s)' % (prop, k.get('what', k.get('id')), r['harness'], r['args'], ob['msg']))
    for e in errors[:20]:
        print('ERROR:', e)
    for u in undecided[:20]:
        print('UNDECIDED:', json.dumps(u))
    for m in mismatches[:5]:
        print('TRANSLATOR-MISMATCH:', json.dumps(m)[:600])
    for m in engine_mismatch[:5]:
        print('ENGINE-MISMATCH (solver model does not reproduce natively; inconclusive):', json.dumps(m)[:600])
    for path, r, ob, o in violations:
        print('VIOLATION property=%s replay=%s' % (prop, path))
        print('  %s%s: %s  inputs=%s' % (r['harness'], r['args'], ob['msg'], json.dumps(ob.get('inputs'))[:400]))
    if violations:
        return 1
    if errors or undecided or mismatches or engine_mismatch:
        # inconclusive is not success, but it is not an alarm either
        print('INCONCLUSIVE: see above; evidence written with the reduced coverage')
        return 3 if os.environ.get('VERIF_STRICT') else 0
    return 0


def replay_main(path):
    with open(path) as f:
        d = json.load(f)
    tmpdir = tempfile.mkdtemp(prefix='verif_replay_')
    try:
        outs = native_run([{'harness': d['harness'], 'args': d['args'], 'inputs': d['inputs']}], tmpdir)
    finally:
        shutil.rmtree(tmpdir, ignore_errors=True)
    print(json.dumps(outs, indent=1))
    if outs and (outs[0].get('failures') or outs[0].get('panic')):
        print('VIOLATION property=%s replay=%s' % (d['property'], path))
        sys.exit(1)
    sys.exit(0)


if __name__ == '__main__':
    if len(sys.argv) > 2 and sys.argv[1] == '--replay':
        replay_main(sys.argv[2])
    main()
