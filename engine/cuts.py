"""Assume-guarantee cuts: a call to the rounding kernel is replaced by (1) proof obligations for the
kernel's precondition P on the actual arguments, (2) a record of the arguments (so the caller harness
can state what they must denote) and (3) fresh result variables constrained only by the kernel's
proved range post-condition.  The kernel itself is verified separately (vh_reduce_*)."""
import terms as T
from intrinsics import INTRINSICS, P, _limbs

MAX = 5 * (1 << 111) - 1
QMAX = 12287


def _cut_reduce(width):
    def cut(ex, st, fr, ins, a):
        if width == 64:
            mode, neg, sig, exp = a
            N = sig
            t = 0
        else:
            mode, neg, sig, exp, t = a
            N = _limbs(sig)
        pos = ins.get('pos', '')
        calls = list(st.ghost.get('cuts', ()))
        idx = len(calls)
        # precondition P
        ex.prove(st, T.bor(T.eq(t, 0), T.gt(N, MAX)), 'check', 'P: sticky flag passed to the rounding kernel with a coefficient that still fits the format', pos)
        ex.prove(st, T.bor(T.ne(t, -1), T.ge(exp, 0)), 'check', 'P: negative sticky flag with an exponent below the minimum', pos)
        ex.prove(st, T.band(T.ge(exp, -25000), T.le(exp, 25000)), 'check', 'P: exponent handed to the rounding kernel outside +-25000', pos)
        ex.prove(st, T.band(T.ge(t, -1), T.le(t, 1)), 'check', 'P: sticky flag outside -1..1', pos)
        ex.prove(st, T.bor(T.gt(N, 0), T.eq(t, 0)), 'check', 'P: zero coefficient with a sticky flag', pos)
        ex.prove(st, T.le(mode, 5), 'check', 'P: rounding mode outside the six defined modes', pos)
        # the kernel is a function: identical arguments give the identical (fresh) result
        def kid(x):
            return ('c', x) if isinstance(x, (int, bool)) else x.uid
        fkey = ('cutfn', width, kid(N), kid(exp), kid(t), kid(neg), kid(mode))
        k = st.ghost.get(fkey)
        if k is None:
            k = st.ghost.get('cutctr', 0)
            st.ghost['cutctr'] = k + 1
            st.ghost[fkey] = k
        rs0 = T.var('cut%d_rs0' % k, 0, (1 << 64) - 1)
        rs1 = T.var('cut%d_rs1' % k, 0, (1 << 64) - 1)
        rexp = T.var('cut%d_rexp' % k, -32768, 32767)
        R = T.add(rs0, T.mulc(rs1, 1 << 64))
        post = T.bor(T.gt(rexp, QMAX), T.band(T.ge(rexp, 0), T.le(R, MAX)))
        ex.add_pc(st, post)
        calls.append({'N': N, 'exp': exp, 't': t, 'neg': neg, 'mode': mode, 'rs': [rs0, rs1], 'rexp': rexp, 'width': width})
        st.ghost['cuts'] = tuple(calls)
        return ([rs0, rs1], rexp)
    return cut


cut_reduce64 = _cut_reduce(64)
cut_reduce128 = _cut_reduce(128)
cut_reduce192 = _cut_reduce(192)
cut_reduce256 = _cut_reduce(256)

PKG = 'github.com/woodsbury/decimal128'
REDUCE_CUTS = {
    '(%s.RoundingMode).reduce64' % PKG: 'cut_reduce64',
    '(%s.RoundingMode).reduce128' % PKG: 'cut_reduce128',
    '(%s.RoundingMode).reduce192' % PKG: 'cut_reduce192',
    '(%s.RoundingMode).reduce256' % PKG: 'cut_reduce256',
}


def _get(ex, st, a, field):
    E = __import__('executor')
    i = ex.concrete(st, a[0])
    calls = st.ghost.get('cuts', ())
    if i < 0 or i >= len(calls):
        raise E.GoPanic('cut index out of range')
    return calls[i][field]


INTRINSICS[P + 'verifSymbolic'] = lambda ex, st, fr, ins, a: ex.concrete_inputs is None
INTRINSICS[P + 'cutCount'] = lambda ex, st, fr, ins, a: len(st.ghost.get('cuts', ()))
INTRINSICS[P + 'cutN'] = lambda ex, st, fr, ins, a: _get(ex, st, a, 'N')
INTRINSICS[P + 'cutExp'] = lambda ex, st, fr, ins, a: _get(ex, st, a, 'exp')
INTRINSICS[P + 'cutT'] = lambda ex, st, fr, ins, a: _get(ex, st, a, 't')
INTRINSICS[P + 'cutNeg'] = lambda ex, st, fr, ins, a: _get(ex, st, a, 'neg')
INTRINSICS[P + 'cutMode'] = lambda ex, st, fr, ins, a: _get(ex, st, a, 'mode')
INTRINSICS[P + 'cutRS'] = lambda ex, st, fr, ins, a: _get(ex, st, a, 'rs')
INTRINSICS[P + 'cutRExp'] = lambda ex, st, fr, ins, a: _get(ex, st, a, 'rexp')


def cut_add(ex, st, fr, ins, a):
    """(Decimal).add as an uninterpreted function of its arguments (used to prove that Add/Sub are
    the WithMode forms called with DefaultRoundingMode)"""
    d, o, mode, sub = a

    def kid(x):
        if isinstance(x, list):
            return tuple(kid(y) for y in x)
        return ('c', x) if isinstance(x, (int, bool)) else x.uid
    fkey = ('cutadd', kid(d), kid(o), kid(mode), kid(sub))
    k = st.ghost.get(fkey)
    if k is None:
        k = st.ghost.get('cutctr', 0)
        st.ghost['cutctr'] = k + 1
        st.ghost[fkey] = k
    return [T.var('add%d_lo' % k, 0, (1 << 64) - 1), T.var('add%d_hi' % k, 0, (1 << 64) - 1)]


def cut_uf_decimal(ex, st, fr, ins, a):
    """any Decimal-valued function as an uninterpreted function of its arguments"""
    def kid(x):
        if isinstance(x, list):
            return tuple(kid(y) for y in x)
        return ('c', x) if isinstance(x, (int, bool)) else x.uid
    callee = ins['fn']['n'] if ins.get('fn') else ins.get('invoke')
    fkey = ('cutuf', callee) + tuple(kid(x) for x in a)
    k = st.ghost.get(fkey)
    if k is None:
        k = st.ghost.get('cutctr', 0)
        st.ghost['cutctr'] = k + 1
        st.ghost[fkey] = k
    return [T.var('uf%d_lo' % k, 0, (1 << 64) - 1), T.var('uf%d_hi' % k, 0, (1 << 64) - 1)]


def cut_end_path(ex, st, fr, ins, a):
    """the general numeric path (series evaluation) is outside the claim: the path ends here"""
    E = __import__('executor')
    ex.reach['outside:general-path'] = ex.reach.get('outside:general-path', 0) + 1
    raise E.PathEnd('outside')
