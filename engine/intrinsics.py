"""Intercepted functions: math/bits, harness primitives (nondet/assume/check/Z), environment stubs."""
import terms as T

W64 = 1 << 64
INTRINSICS = {}
P = '$pkg.'


def intrinsic(*names):
    def deco(f):
        for n in names:
            INTRINSICS[n] = f
        return f
    return deco


def _ex():
    import executor
    return executor


# ---------------------------------------------------------------- math/bits
@intrinsic('math/bits.Add64')
def bits_add64(ex, st, fr, ins, a):
    s = T.add(T.add(a[0], a[1]), a[2])
    return (T.modc(s, W64), T.divc(s, W64))


@intrinsic('math/bits.Sub64')
def bits_sub64(ex, st, fr, ins, a):
    d = T.sub(T.sub(a[0], a[1]), a[2])
    return (T.modc(d, W64), T.neg(T.divc(d, W64)))


@intrinsic('math/bits.Mul64')
def bits_mul64(ex, st, fr, ins, a):
    p = T.mul(a[0], a[1])
    return (T.divc(p, W64), T.modc(p, W64))


@intrinsic('math/bits.Div64')
def bits_div64(ex, st, fr, ins, a):
    hi, lo, y = a
    E = _ex()
    bad = T.le(y, hi)        # y == 0 or y <= hi (unsigned)
    if ex.branch(st, bad):
        raise E.GoPanic('bits.Div64: divide by zero or quotient overflow')
    n = T.add(T.mulc(hi, W64), lo)
    return (T.fdiv(n, y), T.fmod(n, y))


def _len64(ex, st, x):
    """bits.Len64 of a symbolic value: case split on the result (it steers shifts)"""
    if isinstance(x, int):
        return x.bit_length()
    lo, hi = T.iv(x)
    lo = max(lo or 0, 0)
    hi = (W64 - 1) if hi is None else hi
    l0, l1 = lo.bit_length(), hi.bit_length()
    if l0 == l1:
        return l0
    E = _ex()
    # fork over the possible lengths
    key = ('len64', x.uid)
    t = st.ghost.get(key)
    if t is None:
        # build ite chain: len = sum_{i} [x >= 2^i]
        r = 0
        for i in range(l0, l1):
            r = T.add(r, T.b2i(T.ge(x, 1 << i)))
        t = T.add(r, l0)
    return ex.concrete(st, t)


@intrinsic('math/bits.Len64')
def bits_len64(ex, st, fr, ins, a):
    return _len64(ex, st, a[0])


@intrinsic('math/bits.LeadingZeros64')
def bits_lz64(ex, st, fr, ins, a):
    return 64 - _len64(ex, st, a[0])


@intrinsic('math/bits.Len32')
def bits_len32(ex, st, fr, ins, a):
    return _len64(ex, st, a[0])


@intrinsic('math/bits.LeadingZeros32')
def bits_lz32(ex, st, fr, ins, a):
    return 32 - _len64(ex, st, a[0])


@intrinsic('math/bits.TrailingZeros64')
def bits_tz64(ex, st, fr, ins, a):
    x = a[0]
    if isinstance(x, int):
        return 64 if x == 0 else (x & -x).bit_length() - 1
    # fork over the answer
    E = _ex()
    r = 64
    for i in range(63, -1, -1):
        r = T.ite(T.ne(T.modc(x, 1 << (i + 1)), 0), T.ite(T.eq(T.modc(x, 1 << i), 0), i, r) if False else r, r)
    # simple formulation: tz = number of i in 1..64 with x mod 2^i == 0
    r = 0
    for i in range(1, 65):
        r = T.add(r, T.b2i(T.eq(T.modc(x, 1 << i), 0)))
    return ex.concrete(st, r)


# ---------------------------------------------------------------- harness primitives
def _name(st, a):
    s = a[0]
    nm = bytes(s.b).decode()
    k = st.ndc.get(nm, 0)
    st.ndc[nm] = k + 1
    return nm if k == 0 else '%s#%d' % (nm, k)


def _nondet(bits, signed):
    def f(ex, st, fr, ins, a):
        nm = _name(st, a)
        lo, hi = (-(1 << (bits - 1)), (1 << (bits - 1)) - 1) if signed else (0, (1 << bits) - 1)
        if ex.concrete_inputs is not None:
            v = T.wrap(int(ex.concrete_inputs.get(nm, 0)), bits, signed)
            ex.concrete_inputs[nm] = v       # record the value actually used (native replay and shadow runs)
            return v
        v = T.var(nm, lo, hi)
        st.inputs[nm] = ('int', v)
        return v
    return f


for _n, _b, _s in (('nondetU64', 64, False), ('nondetU32', 32, False), ('nondetU16', 16, False), ('nondetU8', 8, False),
                   ('nondetI64', 64, True), ('nondetI32', 32, True), ('nondetI16', 16, True), ('nondetI8', 8, True),
                   ('nondetInt', 64, True), ('nondetUint', 64, False), ('nondetByte', 8, False)):
    INTRINSICS[P + _n] = _nondet(_b, _s)


@intrinsic(P + 'nondetBool')
def nondet_bool(ex, st, fr, ins, a):
    nm = _name(st, a)
    if ex.concrete_inputs is not None:
        v = bool(int(ex.concrete_inputs.get(nm, 0)) & 1)
        ex.concrete_inputs[nm] = v
        return v
    v = T.bvar(nm)
    st.inputs[nm] = ('bool', v)
    return v


@intrinsic(P + 'nondetZ')
def nondet_z(ex, st, fr, ins, a):
    """unbounded non-negative integer below 2^bits (bits concrete)"""
    nm = _name(st, a)
    bits = ex.concrete(st, a[1])
    if ex.concrete_inputs is not None:
        v = int(ex.concrete_inputs.get(nm, 0)) % (1 << bits)
        ex.concrete_inputs[nm] = v
        return v
    v = T.var(nm, 0, (1 << bits) - 1)
    st.inputs[nm] = ('int', v)
    return v


@intrinsic(P + 'assume')
def h_assume(ex, st, fr, ins, a):
    E = _ex()
    c = a[0]
    d = ex.decide(st, c)
    if d is False:
        raise E.PathEnd('assume-false')
    if d is True:
        return None
    if not ex.feasible(st, c):
        raise E.PathEnd('assume-false')
    ex.add_pc(st, c)
    return None


@intrinsic(P + 'check')
def h_check(ex, st, fr, ins, a):
    E = _ex()
    c, msg = a
    m = bytes(msg.b).decode()
    if ex.concrete_inputs is not None:
        if c is not True:
            ex.concrete_failures.append(m)
        return None
    d = ex.decide(st, c)
    if d is True:
        ex.trivial_checks += 1
        return None
    v = ex.prove(st, c if d is None else False, 'check', m, ins.get('pos', ''))
    if v == 'sat' and ex.stop_on_violation:
        raise E.PathEnd('violation')
    if d is False:
        raise E.PathEnd('check-failed')
    # assert-then-assume
    ex.add_pc(st, c)
    return None


@intrinsic(P + 'reach')
def h_reach(ex, st, fr, ins, a):
    m = bytes(a[0].b).decode()
    ex.reach[m] = ex.reach.get(m, 0) + 1
    return None


@intrinsic(P + 'loopBound')
def h_loopbound(ex, st, fr, ins, a):
    st.bound = ex.concrete(st, a[0])
    return None


@intrinsic(P + 'concretize')
def h_concretize(ex, st, fr, ins, a):
    return ex.concrete(st, a[0])


@intrinsic(P + 'expectPanic')
def h_expect_panic(ex, st, fr, ins, a):
    E = _ex()
    f = a[0]
    fn = ex.prog.funcs[f.fn]
    nf = E.Frame(fn)
    for p, v in zip(fn.freevars, f.binds):
        nf.locals[p['n']] = v
    nf.ret = ins.get('n')
    nf.catch = True
    nf.visits[0] = 1
    st.frames.append(nf)
    return ex.PUSHED


# ---------------------------------------------------------------- Z: mathematical integers for specifications
ZT = '(github.com/woodsbury/decimal128.Z).'


def _limbs(v):
    r = 0
    for i, x in enumerate(v):
        r = T.add(r, T.mulc(x, 1 << (64 * i)))
    return r


def _to_limbs(z, n):
    out = []
    for i in range(n):
        out.append(T.modc(z, W64))
        z = T.divc(z, W64)
    return out


INTRINSICS[P + 'zi'] = lambda ex, st, fr, ins, a: a[0]
INTRINSICS[P + 'zu'] = lambda ex, st, fr, ins, a: a[0]
INTRINSICS[P + 'z128'] = lambda ex, st, fr, ins, a: _limbs(a[0])
INTRINSICS[P + 'z192'] = lambda ex, st, fr, ins, a: _limbs(a[0])
INTRINSICS[P + 'z256'] = lambda ex, st, fr, ins, a: _limbs(a[0])
INTRINSICS[P + 'z384'] = lambda ex, st, fr, ins, a: _limbs(a[0])
INTRINSICS[ZT + 'Add'] = lambda ex, st, fr, ins, a: T.add(a[0], a[1])
INTRINSICS[ZT + 'Sub'] = lambda ex, st, fr, ins, a: T.sub(a[0], a[1])
INTRINSICS[ZT + 'Mul'] = lambda ex, st, fr, ins, a: T.mul(a[0], a[1])
INTRINSICS[ZT + 'Neg'] = lambda ex, st, fr, ins, a: T.neg(a[0])
INTRINSICS[ZT + 'Lt'] = lambda ex, st, fr, ins, a: T.lt(a[0], a[1])
INTRINSICS[ZT + 'Le'] = lambda ex, st, fr, ins, a: T.le(a[0], a[1])
INTRINSICS[ZT + 'Gt'] = lambda ex, st, fr, ins, a: T.gt(a[0], a[1])
INTRINSICS[ZT + 'Ge'] = lambda ex, st, fr, ins, a: T.ge(a[0], a[1])
INTRINSICS[ZT + 'Eq'] = lambda ex, st, fr, ins, a: T.eq(a[0], a[1])
INTRINSICS[ZT + 'Ne'] = lambda ex, st, fr, ins, a: T.ne(a[0], a[1])
INTRINSICS[ZT + 'IsZero'] = lambda ex, st, fr, ins, a: T.eq(a[0], 0)
INTRINSICS[ZT + 'U64'] = lambda ex, st, fr, ins, a: T.wrap(a[0], 64, False)
INTRINSICS[ZT + 'I64'] = lambda ex, st, fr, ins, a: T.wrap(a[0], 64, True)
INTRINSICS[ZT + 'Int'] = lambda ex, st, fr, ins, a: T.wrap(a[0], 64, True)
INTRINSICS[ZT + 'To128'] = lambda ex, st, fr, ins, a: _to_limbs(T.wrap(a[0], 128, False), 2)
INTRINSICS[ZT + 'To192'] = lambda ex, st, fr, ins, a: _to_limbs(T.wrap(a[0], 192, False), 3)
INTRINSICS[ZT + 'To256'] = lambda ex, st, fr, ins, a: _to_limbs(T.wrap(a[0], 256, False), 4)
INTRINSICS[ZT + 'To384'] = lambda ex, st, fr, ins, a: _to_limbs(T.wrap(a[0], 384, False), 6)
INTRINSICS[ZT + 'Ite'] = lambda ex, st, fr, ins, a: T.ite(a[1], a[0], a[2])


@intrinsic(P + 'zite')
def z_ite(ex, st, fr, ins, a):
    return T.ite(a[0], a[1], a[2])


@intrinsic(ZT + 'Div')
def z_div(ex, st, fr, ins, a):
    """floor division, divisor must be positive"""
    E = _ex()
    x, y = a
    if isinstance(y, int):
        if y <= 0:
            raise E.GoPanic('Z.Div by non-positive constant')
        return T.divc(x, y)
    if ex.branch(st, T.le(y, 0)):
        raise E.GoPanic('Z.Div by non-positive value')
    return T.fdiv(x, y)


@intrinsic(ZT + 'Mod')
def z_mod(ex, st, fr, ins, a):
    E = _ex()
    x, y = a
    if isinstance(y, int):
        if y <= 0:
            raise E.GoPanic('Z.Mod by non-positive constant')
        return T.modc(x, y)
    if ex.branch(st, T.le(y, 0)):
        raise E.GoPanic('Z.Mod by non-positive value')
    return T.fmod(x, y)


@intrinsic(P + 'zpow10')
def z_pow10(ex, st, fr, ins, a):
    E = _ex()
    k = ex.concrete(st, a[0])
    if k < 0:
        raise E.GoPanic('zpow10 negative exponent')
    if k > 100000:
        raise E.Unsupported('zpow10 exponent too large')
    return 10 ** k


@intrinsic(P + 'zpow2')
def z_pow2(ex, st, fr, ins, a):
    E = _ex()
    k = ex.concrete(st, a[0])
    if k < 0:
        raise E.GoPanic('zpow2 negative exponent')
    return 1 << k


@intrinsic(ZT + 'Abs')
def z_abs(ex, st, fr, ins, a):
    x = a[0]
    lo, hi = T.iv(x)
    if lo is not None and lo >= 0:
        return x
    if hi is not None and hi <= 0:
        return T.neg(x)
    return T.ite(T.le(0, x), x, T.neg(x))


# ---------------------------------------------------------------- opaque environment stubs
def _opaque(what):
    def f(ex, st, fr, ins, a):
        E = _ex()
        return E.Opaque(what)
    return f


for _n in ('errors.New', 'fmt.Errorf', 'fmt.Sprintf', 'fmt.Sprint', 'strconv.Quote', 'strconv.Itoa',
           'strconv.FormatInt', 'strconv.FormatUint'):
    INTRINSICS[_n] = _opaque(_n)


def convert_float(ex, st, x, src, dst):
    return NotImplemented


def float_binop(ex, st, o, x, y, xt):
    E = _ex()
    if isinstance(x, float) and isinstance(y, float):
        if o == '+':
            return x + y
        if o == '-':
            return x - y
        if o == '*':
            return x * y
        if o == '/':
            return x / y
        if o == '<':
            return x < y
        if o == '<=':
            return x <= y
        if o == '>':
            return x > y
        if o == '>=':
            return x >= y
    raise E.Unsupported('float op ' + o)


@intrinsic(P + 'zlog10')
def z_log10(ex, st, fr, ins, a):
    E = _ex()
    z = a[0]
    if isinstance(z, int):
        return 0 if z <= 0 else len(str(z)) - 1
    lo, hi = T.iv(z)
    if hi is None:
        raise E.Unsupported('zlog10 of unbounded value')
    lo = max(lo or 0, 0)
    klo = 0 if lo <= 0 else len(str(lo)) - 1
    khi = 0 if hi <= 0 else len(str(hi)) - 1
    while klo < khi:
        mid = (klo + khi + 1) // 2
        if ex.branch(st, T.ge(z, 10 ** mid)):
            klo = mid
        else:
            khi = mid - 1
    return klo


@intrinsic(P + 'observe')
def h_observe(ex, st, fr, ins, a):
    if ex.observed is not None:
        v = a[1]
        ex.observed.append('%s=%s' % (bytes(a[0].b).decode(), v if isinstance(v, int) else '?'))
    return None


@intrinsic(P + 'observeBool')
def h_observe_bool(ex, st, fr, ins, a):
    if ex.observed is not None:
        v = a[1]
        ex.observed.append('%s=%s' % (bytes(a[0].b).decode(), ('true' if v else 'false') if isinstance(v, bool) else '?'))
    return None


# ---------------------------------------------------------------- math/big as exact integers / rationals
# A *big.Int (or *big.Rat) is a pointer to an opaque object; its mathematical value lives in the
# path state's ghost map.  Every method below follows the documented semantics of package math/big.
BI = '(*math/big.Int).'
BR = '(*math/big.Rat).'


def _bigget(st, p):
    E = _ex()
    if p is None:
        raise E.GoPanic('nil *big.Int')
    return st.ghost.get(('big', p.oid), 0)


def _bigset(st, p, v):
    st.ghost[('big', p.oid)] = v
    return p


def _bignew(ex, st, v):
    E = _ex()
    oid = ex.alloc(st, E.Opaque('big'))
    p = E.Ptr(oid, ())
    st.ghost[('big', oid)] = v
    return p


def _tdiv(ex, st, x, y):
    """truncated division (Go / on big.Int.Quo), y != 0"""
    E = _ex()
    if isinstance(y, int):
        if y == 0:
            raise E.GoPanic('big: division by zero')
        return T.tdivc(x, y), T.tmodc(x, y)
    raise E.Unsupported('big division by a symbolic value')


INTRINSICS['math/big.NewInt'] = lambda ex, st, fr, ins, a: _bignew(ex, st, a[0])
INTRINSICS[P + 'zToBig'] = lambda ex, st, fr, ins, a: _bignew(ex, st, a[0])
INTRINSICS[P + 'bigToZ'] = lambda ex, st, fr, ins, a: _bigget(st, a[0])
INTRINSICS[P + 'ratNum'] = lambda ex, st, fr, ins, a: _ratget(st, a[0])[0]
INTRINSICS[P + 'ratDen'] = lambda ex, st, fr, ins, a: _ratget(st, a[0])[1]
INTRINSICS[BI + 'Sign'] = lambda ex, st, fr, ins, a: T.sub(T.b2i(T.gt(_bigget(st, a[0]), 0)), T.b2i(T.lt(_bigget(st, a[0]), 0)))
INTRINSICS[BI + 'Set'] = lambda ex, st, fr, ins, a: _bigset(st, a[0], _bigget(st, a[1]))
INTRINSICS[BI + 'SetUint64'] = lambda ex, st, fr, ins, a: _bigset(st, a[0], a[1])
INTRINSICS[BI + 'SetInt64'] = lambda ex, st, fr, ins, a: _bigset(st, a[0], a[1])
INTRINSICS[BI + 'Neg'] = lambda ex, st, fr, ins, a: _bigset(st, a[0], T.neg(_bigget(st, a[1])))
INTRINSICS[BI + 'Mul'] = lambda ex, st, fr, ins, a: _bigset(st, a[0], T.mul(_bigget(st, a[1]), _bigget(st, a[2])))
INTRINSICS[BI + 'Add'] = lambda ex, st, fr, ins, a: _bigset(st, a[0], T.add(_bigget(st, a[1]), _bigget(st, a[2])))


@intrinsic(BI + 'Lsh')
def big_lsh(ex, st, fr, ins, a):
    n = ex.concrete(st, a[2])
    return _bigset(st, a[0], T.mulc(_bigget(st, a[1]), 1 << n))


@intrinsic(BI + 'Or')
def big_or(ex, st, fr, ins, a):
    E = _ex()
    x, y = _bigget(st, a[1]), _bigget(st, a[2])
    xl, _ = T.iv(x)
    yl, _ = T.iv(y)
    if xl is None or yl is None or xl < 0 or yl < 0:
        raise E.Unsupported('big.Or of possibly negative values')
    return _bigset(st, a[0], T.or_(x, y, 4096))


def big_bitlen_concrete(ex, st, fr, ins, a):
    E = _ex()
    x = _bigget(st, a[0])
    if isinstance(x, int):
        return abs(x).bit_length()
    ax = z_abs(ex, st, fr, ins, [x])
    lo, hi = T.iv(ax)
    if hi is None:
        raise E.Unsupported('BitLen of an unbounded value')
    l0, l1 = max(lo or 0, 0).bit_length(), hi.bit_length()
    # binary search with forks
    while l0 < l1:
        mid = (l0 + l1 + 1) // 2
        if ex.branch(st, T.ge(ax, 1 << (mid - 1))):
            l0 = mid
        else:
            l1 = mid - 1
    return l0


@intrinsic(BI + 'BitLen')
def big_bitlen(ex, st, fr, ins, a):
    x = _bigget(st, a[0])
    if isinstance(x, int):
        return abs(x).bit_length()
    return T.blen(z_abs(ex, st, fr, ins, [x]))


@intrinsic(BI + 'QuoRem')
def big_quorem(ex, st, fr, ins, a):
    z, x, y, r = a
    xv, yv = _bigget(st, x), _bigget(st, y)
    q, m = _tdiv(ex, st, xv, yv)
    _bigset(st, z, q)
    _bigset(st, r, m)
    return (z, r)


@intrinsic(BI + 'Quo')
def big_quo(ex, st, fr, ins, a):
    q, _ = _tdiv(ex, st, _bigget(st, a[1]), _bigget(st, a[2]))
    return _bigset(st, a[0], q)


@intrinsic(BI + 'Exp')
def big_exp(ex, st, fr, ins, a):
    E = _ex()
    z, x, y, m = a
    if m is not None:
        raise E.Unsupported('big.Exp with modulus')
    xv = ex.concrete(st, _bigget(st, x))
    yv = ex.concrete(st, _bigget(st, y))
    if yv < 0:
        return _bigset(st, z, 1)
    if yv > 20000:
        raise E.Unsupported('big.Exp exponent too large')
    return _bigset(st, z, xv ** yv)


@intrinsic(BI + 'Bits')
def big_bits(ex, st, fr, ins, a):
    E = _ex()
    x = _bigget(st, a[0])
    ax = z_abs(ex, st, fr, ins, [x])
    n = (big_bitlen_concrete(ex, st, fr, ins, a) + 63) // 64
    words = []
    v = ax
    for _ in range(n):
        words.append(T.modc(v, W64))
        v = T.divc(v, W64)
    oid = ex.alloc(st, words)
    return E.Slice(oid, (), 0, n, n) if n else None


def _ratget(st, p):
    E = _ex()
    if p is None:
        raise E.GoPanic('nil *big.Rat')
    return st.ghost.get(('rat', p.oid), (0, 1))


def _ratset(st, p, num, den):
    st.ghost[('rat', p.oid)] = (num, den)
    return p


INTRINSICS[BR + 'SetUint64'] = lambda ex, st, fr, ins, a: _ratset(st, a[0], a[1], 1)
INTRINSICS[BR + 'SetInt'] = lambda ex, st, fr, ins, a: _ratset(st, a[0], _bigget(st, a[1]), 1)
INTRINSICS[BR + 'Neg'] = lambda ex, st, fr, ins, a: _ratset(st, a[0], T.neg(_ratget(st, a[1])[0]), _ratget(st, a[1])[1])


@intrinsic(BR + 'SetFrac')
def rat_setfrac(ex, st, fr, ins, a):
    E = _ex()
    num, den = _bigget(st, a[1]), _bigget(st, a[2])
    if isinstance(den, int) and den == 0:
        raise E.GoPanic('division by zero')
    # value only (no normalisation); denominator kept positive
    if isinstance(den, int) and den < 0:
        num, den = T.neg(num), -den
    return _ratset(st, a[0], num, den)


@intrinsic(BI + 'SetBytes')
def big_setbytes(ex, st, fr, ins, a):
    s = a[1]
    v = 0
    if s is not None:
        arr = ex._load_path(st, st.mem[s.oid], s.base)
        for i in range(s.len):
            v = T.add(T.mulc(v, 256), arr[s.off + i])
    return _bigset(st, a[0], v)


@intrinsic(BI + 'Bytes')
def big_bytes(ex, st, fr, ins, a):
    E = _ex()
    x = _bigget(st, a[0])
    ax = z_abs(ex, st, fr, ins, [x])
    n = (big_bitlen_concrete(ex, st, fr, ins, a) + 7) // 8
    out = []
    v = ax
    for _ in range(n):
        out.append(T.modc(v, 256))
        v = T.divc(v, 256)
    out.reverse()
    oid = ex.alloc(st, out)
    return E.Slice(oid, (), 0, n, n)


INTRINSICS['strconv.FormatUint'] = _opaque('strconv.FormatUint')


@intrinsic('errors.Is')
def errors_is(ex, st, fr, ins, a):
    """errors.Is for the comparisons made by the code under test (no wrapping chains are built there):
    identity, or the error's own Is method"""
    E = _ex()
    err, target = a
    if err is None or target is None:
        return err is None and target is None
    r = ex.veq(err, target)
    if r is True:
        return True
    if isinstance(err, E.Iface) and err.tid != -1:
        ts = ex.prog.types[err.tid]['s']
        mm = ex.prog.methods.get(ts) or {}
        if 'Is' in mm:
            return ex.do_call(st, fr, ins, mm['Is'], [err.val, target])
    return r


for _n in ('reflect.ValueOf', 'reflect.TypeOf'):
    INTRINSICS[_n] = _opaque(_n)
