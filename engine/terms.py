"""Integer / boolean term language of the symbolic executor.

Go integers are mathematical integers here (SMT sort Int) with explicit wrap-around
where an interval analysis cannot exclude it.  Integer terms are kept in linear normal
form  sum(coeff*atom)+const ; `mod` is never an atom (x mod c == x - c*(x div c)), so the
limb recomposition  W*(p div W) + (p mod W) == p  is plain linear arithmetic.
Every term carries an interval; intervals can be refined per path (Ctx.refine).
"""
import math
import sys

try:
    sys.set_int_max_str_digits(0)
except AttributeError:
    pass

import os as _os
ONE_PERIOD = _os.environ.get('VERIF_ONE_PERIOD', '1') == '1'
_intern = {}
_next_uid = [1]


def _uid(key):
    u = _intern.get(key)
    if u is None:
        u = _next_uid[0]
        _next_uid[0] += 1
        _intern[key] = u
    return u


class Ctx:
    """per-path interval refinements: uid -> (lo, hi)"""
    refine = {}
    pc = None


def set_ctx(refine):
    Ctx.refine = refine


# ---------------------------------------------------------------- intervals
def _isect(a, b):
    lo = a[0] if b[0] is None else (b[0] if a[0] is None else max(a[0], b[0]))
    hi = a[1] if b[1] is None else (b[1] if a[1] is None else min(a[1], b[1]))
    return (lo, hi)


def _union(a, b):
    lo = None if (a[0] is None or b[0] is None) else min(a[0], b[0])
    hi = None if (a[1] is None or b[1] is None) else max(a[1], b[1])
    return (lo, hi)


def _add_iv(a, b):
    return (None if a[0] is None or b[0] is None else a[0] + b[0],
            None if a[1] is None or b[1] is None else a[1] + b[1])


def _scale_iv(a, k):
    if k == 0:
        return (0, 0)
    if k > 0:
        return (None if a[0] is None else a[0] * k, None if a[1] is None else a[1] * k)
    return (None if a[1] is None else a[1] * k, None if a[0] is None else a[0] * k)


class Atom:
    __slots__ = ('uid', 'op', 'args', 'lo', 'hi')

    def __init__(self, op, args, lo, hi, key):
        self.op = op
        self.args = args
        self.lo = lo
        self.hi = hi
        self.uid = _uid(key)

    def iv(self):
        r = Ctx.refine.get(self.uid)
        if r is None:
            return (self.lo, self.hi)
        return _isect((self.lo, self.hi), r)

    def __hash__(self):
        return self.uid

    def __eq__(self, o):
        return isinstance(o, Atom) and o.uid == self.uid

    def __repr__(self):
        return 'n%d' % self.uid


class Lin:
    __slots__ = ('uid', 'terms', 'c', 'lo', 'hi', 'core', 'gs')

    def __repr__(self):
        return 'L%d[%s,%s]' % (self.uid, self.lo, self.hi)

    def iv(self):
        r = Ctx.refine.get(self.core)
        if r is None:
            return (self.lo, self.hi)
        return _isect((self.lo, self.hi), _add_iv(_scale_iv(r, self.gs), (self.c, self.c)))


def iv(x):
    if isinstance(x, int):
        return (x, x)
    return x.iv()


def mk_lin(terms, c, hint=None):
    """terms: dict atom->coeff (may contain zeros). returns int or Lin"""
    items = []
    for a, k in terms.items():
        if k == 0:
            continue
        lo, hi = a.iv()
        if lo is not None and lo == hi:
            c += k * lo
            continue
        items.append((a, k))
    if not items:
        return c
    items.sort(key=lambda ak: ak[0].uid)
    L = Lin()
    L.terms = tuple(items)
    L.c = c
    L.uid = _uid(('lin', c, tuple((a.uid, k) for a, k in items)))
    g = 0
    for _, k in items:
        g = math.gcd(g, abs(k))
    gs = g if items[0][1] > 0 else -g
    L.gs = gs
    L.core = _uid(('core', tuple((a.uid, k // gs) for a, k in items)))
    cur = (c, c)
    for a, k in items:
        cur = _add_iv(cur, _scale_iv(a.iv(), k))
    if hint is not None:
        cur = _isect(cur, hint)
    r = Ctx.refine.get(L.core)
    if r is not None:
        cur = _isect(cur, _add_iv(_scale_iv(r, gs), (c, c)))
    L.lo, L.hi = cur
    if L.lo is not None and L.lo == L.hi:
        return L.lo
    return L


def atom_lin(a):
    return mk_lin({a: 1}, 0)


def var(name, lo, hi):
    return atom_lin(Atom('var', (name,), lo, hi, ('var', name)))


def _terms(x):
    if isinstance(x, int):
        return {}, x
    return dict(x.terms), x.c


def add(a, b):
    if isinstance(a, int) and isinstance(b, int):
        return a + b
    if isinstance(a, int) and a == 0:
        return b
    if isinstance(b, int) and b == 0:
        return a
    ta, ca = _terms(a)
    tb, cb = _terms(b)
    for k, v in tb.items():
        ta[k] = ta.get(k, 0) + v
    return mk_lin(ta, ca + cb, _add_iv(iv(a), iv(b)))


def mulc(a, k):
    if isinstance(a, int):
        return a * k
    if k == 0:
        return 0
    if k == 1:
        return a
    return mk_lin({x: v * k for x, v in a.terms}, a.c * k, _scale_iv(iv(a), k))


def neg(a):
    return mulc(a, -1)


def sub(a, b):
    return add(a, neg(b))


def _mul_atoms(x, y):
    """product of two atoms as int|Lin"""
    if x.uid > y.uid:
        x, y = y, x
    lx, ly = atom_lin(x), atom_lin(y)
    if isinstance(lx, int):
        return mulc(ly, lx)
    if isinstance(ly, int):
        return mulc(lx, ly)
    ia, ib = x.iv(), y.iv()
    if None in ia or None in ib:
        lo = hi = None
        if ia[0] is not None and ib[0] is not None and ia[0] >= 0 and ib[0] >= 0:
            lo = ia[0] * ib[0]
    else:
        cs = [ia[0] * ib[0], ia[0] * ib[1], ia[1] * ib[0], ia[1] * ib[1]]
        lo, hi = min(cs), max(cs)
    return atom_lin(Atom('mul', (lx, ly), lo, hi, ('mul', x.uid, y.uid)))


def mul(a, b):
    """product; distributed over the linear forms so that limb products n_i*o_j become shared atoms"""
    if isinstance(a, int):
        return mulc(b, a)
    if isinstance(b, int):
        return mulc(a, b)
    ia, ib = iv(a), iv(b)
    hint = (None, None)
    if None not in ia and None not in ib:
        cs = [ia[0] * ib[0], ia[0] * ib[1], ia[1] * ib[0], ia[1] * ib[1]]
        hint = (min(cs), max(cs))
    elif ia[0] is not None and ib[0] is not None and ia[0] >= 0 and ib[0] >= 0:
        hint = (ia[0] * ib[0], None)
    res = a.c * b.c
    for x, kx in a.terms:
        for y, ky in b.terms:
            res = add(res, mulc(_mul_atoms(x, y), kx * ky))
    if b.c:
        res = add(res, mulc(sub(a, a.c), b.c))
    if a.c:
        res = add(res, mulc(sub(b, b.c), a.c))
    return _with_hint(res, hint)


def _split(a, c):
    """a = c*A + B with B's coefficients in [0,c). returns (A, B) as int|Lin"""
    if isinstance(a, int):
        return a // c, a % c
    ta, tb = {}, {}
    for x, k in a.terms:
        q, r = divmod(k, c)
        if q:
            ta[x] = q
        if r:
            tb[x] = r
    qc, rc = divmod(a.c, c)
    return mk_lin(ta, qc), mk_lin(tb, rc)


def divc(a, c):
    """floor division by a positive constant"""
    assert c > 0
    if c == 1:
        return a
    if isinstance(a, int):
        return a // c
    alo, ahi = iv(a)
    if alo is not None and ahi is not None and alo // c == ahi // c:
        return alo // c
    if ONE_PERIOD and c <= (1 << 32) and alo is not None and ahi is not None and alo // c + 1 == ahi // c and len(a.terms) > 1:
        # the value crosses exactly one multiple of c: a case split is friendlier to the solvers than a div atom
        q = alo // c
        return ite(lt(a, c * (q + 1)), q, q + 1)
    if all(k < 0 for _, k in a.terms) and all(-k < c for _, k in a.terms):
        # a = K - (positive form) with small coefficients (e.g. 6157 - exp): floor(a/c) = -ceil(-a/c); splitting the
        # negative coefficients as -c*x + (c-1)*x would give the solvers a needlessly hard term
        res = neg(_divc(add(neg(a), c - 1), c))
    else:
        res = _divc(a, c)
    return _with_hint(res, (None if alo is None else alo // c, None if ahi is None else ahi // c))


def _divc(a, c):
    A, B = _split(a, c)
    lo, hi = iv(B)
    if lo is not None and hi is not None and lo // c == hi // c:
        return add(A, lo // c)
    if isinstance(B, int):
        return add(A, B // c)
    # common factor: (g*X + r) div (g*c') == X div c'  for 0 <= r < g
    g = c
    for _, k in B.terms:
        g = math.gcd(g, k)
    if g > 1:
        X = mk_lin({x: k // g for x, k in B.terms}, B.c // g)
        return add(A, divc(X, c // g))
    # nested division by constants: (x div a) div b is kept as a chain on purpose (decimal digit
    # chains are easier for the solvers that way); pure bit-field extraction (powers of two) is flattened
    if (c & (c - 1)) == 0 and len(B.terms) == 1 and B.c == 0 and B.terms[0][1] == 1 and B.terms[0][0].op == 'div':
        inner = B.terms[0][0]
        ic = inner.args[1]
        if (ic & (ic - 1)) == 0:
            return add(A, divc(inner.args[0], ic * c))
    dlo = None if lo is None else lo // c
    dhi = None if hi is None else hi // c
    d = Atom('div', (B, c), dlo, dhi, ('div', B.uid, c))
    return add(A, atom_lin(d))


def _with_hint(x, hint):
    if isinstance(x, int):
        return x
    lo, hi = _isect((x.lo, x.hi), hint)
    if (lo, hi) == (x.lo, x.hi):
        return x
    if lo is not None and lo == hi:
        return lo
    L = Lin()
    L.terms, L.c, L.uid, L.core, L.gs = x.terms, x.c, x.uid, x.core, x.gs
    L.lo, L.hi = lo, hi
    return L


def modc(a, c):
    assert c > 0
    if c == 1:
        return 0
    if isinstance(a, int):
        return a % c
    alo, ahi = iv(a)
    if alo is not None and ahi is not None and alo // c == ahi // c:
        return sub(a, (alo // c) * c)
    if ONE_PERIOD and c <= (1 << 32) and alo is not None and ahi is not None and alo // c + 1 == ahi // c and len(a.terms) > 1:
        q = alo // c
        return ite(lt(a, c * (q + 1)), sub(a, c * q), sub(a, c * (q + 1)))
    A, B = _split(a, c)
    lo, hi = iv(B)
    if lo is not None and hi is not None and lo // c == hi // c:
        return sub(B, (lo // c) * c)
    if isinstance(B, int):
        return B % c
    r = sub(B, mulc(divc(B, c), c))
    return _with_hint(r, (0, c - 1))


def tdivc(a, c):
    """Go signed division (truncated) by a nonzero constant"""
    if c < 0:
        return neg(tdivc(a, -c))
    lo, hi = iv(a)
    if lo is not None and lo >= 0:
        return divc(a, c)
    if hi is not None and hi <= 0:
        return neg(divc(neg(a), c))
    return ite(le(0, a), divc(a, c), neg(divc(neg(a), c)))


def tmodc(a, c):
    return sub(a, mulc(tdivc(a, c), c))


def fdiv(a, b):
    """floor division, symbolic positive divisor"""
    if isinstance(b, int):
        return divc(a, b)
    if isinstance(a, int) and a == 0:
        return 0
    ia, ib = iv(a), iv(b)
    lo = hi = None
    if ia[0] is not None and ia[0] >= 0:
        lo = 0
        if ia[1] is not None and ib[0] is not None and ib[0] > 0:
            hi = ia[1] // ib[0]
            if ib[1] is not None:
                lo = ia[0] // ib[1]
    ua = a.uid if not isinstance(a, int) else ('c', a)
    return atom_lin(Atom('fdiv', (a, b), lo, hi, ('fdiv', ua, b.uid)))


def fmod(a, b):
    if isinstance(b, int):
        return modc(a, b)
    r = sub(a, mul(fdiv(a, b), b))
    ib = iv(b)
    return _with_hint(r, (0, None if ib[1] is None else ib[1] - 1))


# ---------------------------------------------------------------- booleans
class B:
    __slots__ = ('uid', 'op', 'args')

    def __init__(self, op, args, key):
        self.op = op
        self.args = args
        self.uid = _uid(key)

    def __repr__(self):
        return 'b%d' % self.uid


def bvar(name):
    return B('bvar', (name,), ('bvar', name))


def le0(d):
    """d <= 0"""
    if isinstance(d, int):
        return d <= 0
    if len(d.terms) == 1 and d.terms[0][0].op == 'bor':
        k = d.terms[0][1]
        x, y = d.terms[0][0].args
        if k == 1 and d.c == 0:
            return band(eq0(x), eq0(y))
        if k == -1 and d.c == 1:
            return bnot(band(eq0(x), eq0(y)))
    if len(d.terms) == 1 and d.terms[0][0].op == 'blen' and abs(d.terms[0][1]) == 1:
        k = d.terms[0][1]
        x = d.terms[0][0].args[0]
        if k == 1:
            # blen(x) <= -c  <=>  x < 2^(-c)
            n = -d.c
            if n < 0:
                return False
            return le0(add(x, 1 - (1 << n)))
        # -blen(x) + c <= 0  <=>  blen(x) >= c  <=>  x >= 2^(c-1)
        n = d.c
        if n <= 0:
            return True
        return le0(sub((1 << (n - 1)), x))
    lo, hi = iv(d)
    if hi is not None and hi <= 0:
        return True
    if lo is not None and lo > 0:
        return False
    g = 0
    for _, k in d.terms:
        g = math.gcd(g, abs(k))
    if g > 1:
        d = mk_lin({x: k // g for x, k in d.terms}, -((-d.c) // g))
        if isinstance(d, int):
            return d <= 0
    return B('le0', (d,), ('le0', d.uid))


def eq0(d):
    if isinstance(d, int):
        return d == 0
    if d.c == 0 and len(d.terms) == 1 and d.terms[0][0].op == 'bor':
        x, y = d.terms[0][0].args
        return band(eq0(x), eq0(y))
    lo, hi = iv(d)
    if (hi is not None and hi < 0) or (lo is not None and lo > 0):
        return False
    g = 0
    for _, k in d.terms:
        g = math.gcd(g, abs(k))
    if g > 1:
        if d.c % g != 0:
            return False
        d = mk_lin({x: k // g for x, k in d.terms}, d.c // g)
        if isinstance(d, int):
            return d == 0
    # canonical sign: first coefficient positive
    if d.terms[0][1] < 0:
        d = neg(d)
        if isinstance(d, int):
            return d == 0
    return B('eq0', (d,), ('eq0', d.uid))


def le(a, b):
    return le0(sub(a, b))


def lt(a, b):
    return le0(add(sub(a, b), 1))


def ge(a, b):
    return le(b, a)


def gt(a, b):
    return lt(b, a)


def eq(a, b):
    return eq0(sub(a, b))


def ne(a, b):
    return bnot(eq(a, b))


def bnot(b):
    if isinstance(b, bool):
        return not b
    if b.op == 'le0':
        return le0(add(neg(b.args[0]), 1))
    if b.op == 'not':
        return b.args[0]
    return B('not', (b,), ('not', b.uid))


def band(*bs):
    out = []
    seen = set()
    for b in bs:
        if isinstance(b, bool):
            if not b:
                return False
            continue
        if b.op == 'and':
            for x in b.args:
                if x.uid not in seen:
                    seen.add(x.uid)
                    out.append(x)
        elif b.uid not in seen:
            seen.add(b.uid)
            out.append(b)
    if not out:
        return True
    if len(out) == 1:
        return out[0]
    out.sort(key=lambda x: x.uid)
    return B('and', tuple(out), ('and',) + tuple(x.uid for x in out))


def bor(*bs):
    out = []
    seen = set()
    for b in bs:
        if isinstance(b, bool):
            if b:
                return True
            continue
        if b.op == 'or':
            for x in b.args:
                if x.uid not in seen:
                    seen.add(x.uid)
                    out.append(x)
        elif b.uid not in seen:
            seen.add(b.uid)
            out.append(b)
    if not out:
        return False
    if len(out) == 1:
        return out[0]
    for x in out:
        if x.op == 'not' and x.args[0].uid in seen:
            return True
    out.sort(key=lambda x: x.uid)
    return B('or', tuple(out), ('or',) + tuple(x.uid for x in out))


def bite(c, a, b):
    if isinstance(c, bool):
        return a if c else b
    if isinstance(a, bool) and isinstance(b, bool):
        if a == b:
            return a
        return c if a else bnot(c)
    if isinstance(a, bool):
        return bor(c, b) if a else band(bnot(c), b)
    if isinstance(b, bool):
        return bor(bnot(c), a) if b else band(c, a)
    if a.uid == b.uid:
        return a
    return B('bite', (c, a, b), ('bite', c.uid, a.uid, b.uid))


def beq(a, b):
    """boolean equality"""
    if isinstance(a, bool):
        return b if a else bnot(b)
    if isinstance(b, bool):
        return a if b else bnot(a)
    return bite(a, b, bnot(b))


def ite(c, a, b):
    if isinstance(c, bool):
        return a if c else b
    if isinstance(a, int) and isinstance(b, int) and a == b:
        return a
    if not isinstance(a, int) and not isinstance(b, int) and a.uid == b.uid:
        # same term; the two objects may carry intervals that are only valid on their own path
        lo, hi = _union((a.lo, a.hi), (b.lo, b.hi))
        if (lo, hi) == (a.lo, a.hi):
            return a
        L = Lin()
        L.terms, L.c, L.uid, L.core, L.gs = a.terms, a.c, a.uid, a.core, a.gs
        L.lo, L.hi = lo, hi
        return L
    ua = ('c', a) if isinstance(a, int) else a.uid
    ub = ('c', b) if isinstance(b, int) else b.uid
    lo, hi = _union(iv(a), iv(b))
    return atom_lin(Atom('ite', (c, a, b), lo, hi, ('ite', c.uid, ua, ub)))


def blen(x):
    """bit length of a non-negative value, kept lazy: it is almost always only compared with a constant"""
    if isinstance(x, int):
        return x.bit_length()
    lo, hi = iv(x)
    l0 = max(lo or 0, 0).bit_length()
    l1 = None if hi is None else hi.bit_length()
    if l1 is not None and l0 == l1:
        return l0
    return atom_lin(Atom('blen', (x,), l0, l1, ('blen', x.uid)))


def b2i(b):
    if isinstance(b, bool):
        return 1 if b else 0
    return ite(b, 1, 0)


# ---------------------------------------------------------------- machine integer helpers
def wrap(t, bits, signed):
    m = 1 << bits
    lo_t, hi_t = (-(m >> 1), (m >> 1) - 1) if signed else (0, m - 1)
    if isinstance(t, int):
        if signed:
            return ((t + (m >> 1)) % m) - (m >> 1)
        return t % m
    lo, hi = iv(t)
    if lo is not None and hi is not None and lo >= lo_t and hi <= hi_t:
        return t
    if signed:
        return sub(modc(add(t, m >> 1), m), m >> 1)
    return modc(t, m)


def _tz(k):
    k = abs(k)
    if k == 0:
        return 1 << 30
    return (k & -k).bit_length() - 1


def _atom_lzb(a, depth=0):
    if depth > 6:
        return 0
    if a.op == 'ite':
        return min(low_zero_bits(a.args[1], depth + 1), low_zero_bits(a.args[2], depth + 1))
    if a.op == 'mul':
        return low_zero_bits(a.args[0], depth + 1) + low_zero_bits(a.args[1], depth + 1)
    return 0


def low_zero_bits(t, depth=0):
    """number of low bits known to be zero (for non-negative t): every summand is a multiple of 2^result"""
    if isinstance(t, int):
        return _tz(t)
    r = _tz(t.c)
    for a, k in t.terms:
        r = min(r, _tz(k) + _atom_lzb(a, depth))
        if r == 0:
            break
    return r


def maybe_mask(t, bits=64):
    """mask of bit positions that may be non-zero (t non-negative, < 2^bits)"""
    if isinstance(t, int):
        return t
    lo, hi = iv(t)
    top = bits if hi is None else max(hi, 0).bit_length()
    z = min(low_zero_bits(t), top)
    return ((1 << top) - 1) & ~((1 << z) - 1)


def bit_field(t, a, n):
    """(t >> a) mod 2^n"""
    return modc(divc(t, 1 << a), 1 << n)


def and_mask(t, mask, bits=64):
    """t & constant mask, t in [0, 2^bits)"""
    if isinstance(t, int):
        return t & mask
    mm = maybe_mask(t, bits)
    mask &= mm
    if mask == 0:
        return 0
    if mask == mm:
        return t
    res = 0
    i = 0
    while mask >> i:
        if (mask >> i) & 1:
            j = i
            while (mask >> j) & 1:
                j += 1
            # run [i, j)
            if (mm >> j) == 0:
                # nothing above the run can be set: field = t div 2^i
                f = divc(t, 1 << i)
            else:
                f = bit_field(t, i, j - i)
            res = add(res, mulc(f, 1 << i))
            i = j
        else:
            i += 1
    return res


def or_(a, b, bits=64):
    if isinstance(a, int) and isinstance(b, int):
        return a | b
    ma, mb = maybe_mask(a, bits), maybe_mask(b, bits)
    if ma & mb == 0:
        return add(a, b)
    if isinstance(b, int) or isinstance(a, int):
        if isinstance(a, int):
            a, b = b, a
        # a | const = (a & ~const) + const
        return add(and_mask(a, ((1 << bits) - 1) & ~b, bits), b)
    # both symbolic with possibly overlapping bits: a lazy atom (almost always compared with zero)
    if a.uid > b.uid:
        a, b = b, a
    ia, ib = iv(a), iv(b)
    lo = max(ia[0] or 0, ib[0] or 0)
    hi = None
    if ia[1] is not None and ib[1] is not None:
        hi = (1 << max(ia[1].bit_length(), ib[1].bit_length())) - 1
    return atom_lin(Atom('bor', (a, b), lo, hi, ('bor', a.uid, b.uid)))


def and_(a, b, bits=64):
    if isinstance(a, int) and isinstance(b, int):
        return a & b
    if isinstance(a, int):
        return and_mask(b, a, bits)
    if isinstance(b, int):
        return and_mask(a, b, bits)
    ov = maybe_mask(a, bits) & maybe_mask(b, bits)
    res = 0
    i = 0
    while ov >> i:
        if (ov >> i) & 1:
            ba = bit_field(a, i, 1)
            bb = bit_field(b, i, 1)
            res = add(res, mulc(ite(band(eq(ba, 1), eq(bb, 1)), 1, 0), 1 << i))
        i += 1
    return res


def xor_(a, b, bits=64):
    if isinstance(a, int) and isinstance(b, int):
        return a ^ b
    # a ^ b = (a | b) - (a & b)
    if isinstance(a, int):
        a, b = b, a
    if isinstance(b, int):
        # flip the bits of a selected by b: a - 2*(a&b) + b
        return add(sub(a, mulc(and_mask(a, b, bits), 2)), b)
    return sub(or_(a, b, bits), and_(a, b, bits))


# ---------------------------------------------------------------- evaluation under a model
def eval_int(t, model, memo=None):
    if isinstance(t, int):
        return t
    if memo is None:
        memo = {}
    r = t.c
    for a, k in t.terms:
        r += k * eval_atom(a, model, memo)
    return r


def eval_atom(a, model, memo):
    v = memo.get(a.uid)
    if v is not None:
        return v
    if a.op == 'var':
        v = model.get(a.args[0], 0)
        if isinstance(v, bool):
            v = int(v)
    elif a.op == 'div':
        v = eval_int(a.args[0], model, memo) // a.args[1]
    elif a.op == 'ite':
        v = eval_int(a.args[1], model, memo) if eval_bool(a.args[0], model, memo) else eval_int(a.args[2], model, memo)
    elif a.op == 'mul':
        v = eval_int(a.args[0], model, memo) * eval_int(a.args[1], model, memo)
    elif a.op == 'fdiv':
        d = eval_int(a.args[1], model, memo)
        v = 0 if d == 0 else eval_int(a.args[0], model, memo) // d
    elif a.op == 'bor':
        v = eval_int(a.args[0], model, memo) | eval_int(a.args[1], model, memo)
    elif a.op == 'blen':
        v = max(eval_int(a.args[0], model, memo), 0).bit_length()
    else:
        raise ValueError(a.op)
    memo[a.uid] = v
    return v


def eval_bool(b, model, memo=None):
    if isinstance(b, bool):
        return b
    if memo is None:
        memo = {}
    if b.op == 'le0':
        return eval_int(b.args[0], model, memo) <= 0
    if b.op == 'eq0':
        return eval_int(b.args[0], model, memo) == 0
    if b.op == 'not':
        return not eval_bool(b.args[0], model, memo)
    if b.op == 'and':
        return all(eval_bool(x, model, memo) for x in b.args)
    if b.op == 'or':
        return any(eval_bool(x, model, memo) for x in b.args)
    if b.op == 'bvar':
        return bool(model.get(b.args[0], False))
    if b.op == 'bite':
        return eval_bool(b.args[1], model, memo) if eval_bool(b.args[0], model, memo) else eval_bool(b.args[2], model, memo)
    raise ValueError(b.op)


# ---------------------------------------------------------------- SMT-LIB emission
def _num(k):
    return str(k) if k >= 0 else '(- %d)' % (-k)


class Emitter:
    def __init__(self):
        self.lines = []
        self.done = set()
        self.vars = {}     # name -> ('Int'|'Bool', lo, hi)
        self.nodes = 0
        self.approx = False

    def ref_int(self, t):
        if isinstance(t, int):
            return _num(t)
        self._emit_lin(t)
        return 'L%d' % t.uid

    def _emit_lin(self, t):
        if ('L', t.uid) in self.done:
            return
        # iterative emission is unnecessary: depth is bounded by term nesting, but guard recursion
        parts = []
        for a, k in t.terms:
            r = self._emit_atom(a)
            if k == 1:
                parts.append(r)
            else:
                parts.append('(* %s %s)' % (_num(k), r))
        if t.c != 0:
            parts.append(_num(t.c))
        s = parts[0] if len(parts) == 1 else '(+ %s)' % ' '.join(parts)
        self.lines.append('(define-fun L%d () Int %s)' % (t.uid, s))
        self.done.add(('L', t.uid))
        self.nodes += 1

    def _emit_atom(self, a):
        name = 'n%d' % a.uid
        if a.op == 'var':
            v = a.args[0]
            if v not in self.vars:
                self.vars[v] = ('Int', a.lo, a.hi)
                self.lines.append('(declare-const |i_%s| Int)' % v)
                cs = []
                if a.lo is not None:
                    cs.append('(<= %s |i_%s|)' % (_num(a.lo), v))
                if a.hi is not None:
                    cs.append('(<= |i_%s| %s)' % (v, _num(a.hi)))
                if cs:
                    self.lines.append('(assert (and %s))' % ' '.join(cs) if len(cs) > 1 else '(assert %s)' % cs[0])
            return '|i_%s|' % v
        if ('A', a.uid) in self.done:
            return name
        if a.op == 'div':
            x = self.ref_int(a.args[0])
            self.lines.append('(define-fun %s () Int (div %s %s))' % (name, x, _num(a.args[1])))
        elif a.op == 'ite':
            c = self.ref_bool(a.args[0])
            x = self.ref_int(a.args[1])
            y = self.ref_int(a.args[2])
            self.lines.append('(define-fun %s () Int (ite %s %s %s))' % (name, c, x, y))
        elif a.op == 'mul':
            x = self.ref_int(a.args[0])
            y = self.ref_int(a.args[1])
            self.lines.append('(define-fun %s () Int (* %s %s))' % (name, x, y))
        elif a.op == 'fdiv':
            x = self.ref_int(a.args[0])
            y = self.ref_int(a.args[1])
            self.lines.append('(define-fun %s () Int (div %s %s))' % (name, x, y))
        elif a.op == 'bor':
            # bitwise or of two non-negative values, over-approximated: max(x,y) <= v <= x+y
            # (sound for unsat answers; a spurious model is caught by the native replay)
            x = self.ref_int(a.args[0])
            y = self.ref_int(a.args[1])
            self.lines.append('(declare-const %s Int)' % name)
            self.lines.append('(assert (and (<= %s %s) (<= %s %s) (<= %s (+ %s %s))))' % (x, name, y, name, name, x, y))
            self.approx = True
        else:
            raise ValueError(a.op)
        self.done.add(('A', a.uid))
        self.nodes += 1
        return name

    def ref_bool(self, b):
        if isinstance(b, bool):
            return 'true' if b else 'false'
        name = 'b%d' % b.uid
        if b.op == 'bvar':
            v = b.args[0]
            if v not in self.vars:
                self.vars[v] = ('Bool', None, None)
                self.lines.append('(declare-const |i_%s| Bool)' % v)
            return '|i_%s|' % v
        if ('B', b.uid) in self.done:
            return name
        if b.op == 'le0':
            s = '(<= %s 0)' % self.ref_int(b.args[0])
        elif b.op == 'eq0':
            s = '(= %s 0)' % self.ref_int(b.args[0])
        elif b.op == 'not':
            s = '(not %s)' % self.ref_bool(b.args[0])
        elif b.op in ('and', 'or'):
            s = '(%s %s)' % (b.op, ' '.join(self.ref_bool(x) for x in b.args))
        elif b.op == 'bite':
            s = '(ite %s %s %s)' % tuple(self.ref_bool(x) for x in b.args)
        else:
            raise ValueError(b.op)
        self.lines.append('(define-fun %s () Bool %s)' % (name, s))
        self.done.add(('B', b.uid))
        self.nodes += 1
        return name

    def assert_(self, b):
        if b is True:
            return
        self.lines.append('(assert %s)' % self.ref_bool(b))


def to_smt(assertions, want_model=True):
    import sys
    sys.setrecursionlimit(max(sys.getrecursionlimit(), 100000))
    e = Emitter()
    for b in assertions:
        e.assert_(b)
    head = ['(set-logic ALL)']
    if want_model:
        head.append('(set-option :produce-models true)')
    text = '\n'.join(head + e.lines + ['(check-sat)'])
    return text, e


# ---------------------------------------------------------------- shadow evaluation (self-check of the normaliser)
SHADOW = None      # a model (dict name -> value): every constructor result is compared with concrete evaluation
SHADOW_ERRORS = []


def _shadow_wrap(name, fn, ref):
    def wrapped(*args):
        r = fn(*args)
        if SHADOW is not None:
            try:
                memo = {}
                if Ctx.pc is not None and not all(eval_bool(b, SHADOW, memo) for b in Ctx.pc):
                    return r
                vals = [eval_bool(a, SHADOW, memo) if isinstance(a, (bool, B)) else (eval_int(a, SHADOW, memo) if isinstance(a, (int, Lin)) else a) for a in args]
                want = ref(*vals)
                got = eval_bool(r, SHADOW, memo) if isinstance(r, (bool, B)) else eval_int(r, SHADOW, memo)
                if want != got and len(SHADOW_ERRORS) < 20:
                    SHADOW_ERRORS.append((name, [repr(a) for a in args], vals, want, got))
                if isinstance(r, Lin) and len(SHADOW_ERRORS) < 20:
                    lo, hi = r.iv()
                    if (lo is not None and got < lo) or (hi is not None and got > hi):
                        SHADOW_ERRORS.append(('interval:' + name, [repr(a) for a in args], vals, (lo, hi), got))
            except Exception as e:  # noqa
                pass
        return r
    return wrapped


def enable_shadow(model):
    """wrap the public constructors; only used by debugging / self-test runs"""
    global SHADOW, divc, modc, wrap, add, sub, mulc, mul, tdivc, tmodc, le, lt, eq, and_mask, or_, ite
    SHADOW = model
    g = globals()
    if g.get('_shadow_on'):
        return
    g['_shadow_on'] = True

    def _wrapref(t, bits, signed):
        m = 1 << bits
        if signed:
            return ((t + (m >> 1)) % m) - (m >> 1)
        return t % m

    def _tdiv(a, c):
        q = abs(a) // abs(c)
        return q if (a >= 0) == (c > 0) else -q
    divc = _shadow_wrap('divc', divc, lambda a, c: a // c)
    modc = _shadow_wrap('modc', modc, lambda a, c: a % c)
    wrap = _shadow_wrap('wrap', wrap, _wrapref)
    add = _shadow_wrap('add', add, lambda a, b: a + b)
    mulc = _shadow_wrap('mulc', mulc, lambda a, k: a * k)
    mul = _shadow_wrap('mul', mul, lambda a, b: a * b)
    tdivc = _shadow_wrap('tdivc', tdivc, _tdiv)
    le = _shadow_wrap('le', le, lambda a, b: a <= b)
    lt = _shadow_wrap('lt', lt, lambda a, b: a < b)
    eq = _shadow_wrap('eq', eq, lambda a, b: a == b)
    and_mask = _shadow_wrap('and_mask', and_mask, lambda t, m, bits=64: t & m)
    or_ = _shadow_wrap('or_', or_, lambda a, b, bits=64: a | b)
