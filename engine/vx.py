#!/usr/bin/env python3-vt
"""Developer CLI: build the SSA dump from /repo's working tree + harness overlay and run one harness."""
import json
import os
import subprocess
import sys
import time

HERE = os.path.dirname(os.path.abspath(__file__))
ROOT = os.path.dirname(HERE)
sys.path.insert(0, HERE)

import terms as T  # noqa
import solver as S  # noqa
from program import Program  # noqa
from executor import Executor, Unsupported  # noqa

REPO = os.environ.get('VERIF_REPO', '/repo')


def build_ssa(out=None):
    """(re)build frontend if needed and dump SSA of REPO's current tree with the harness overlay"""
    binp = os.path.join(ROOT, 'bin', 'ssa2json')
    env = dict(os.environ, GOFLAGS='-mod=mod', GOPROXY='off', GOSUMDB='off', GOTOOLCHAIN='local')
    if not os.path.exists(binp):
        subprocess.check_call(['go', 'build', '-o', binp, '.'], cwd=os.path.join(ROOT, 'frontend'), env=env)
    if out is None:
        out = '/dev/shm/verif_ssa_%d.json' % os.getpid()
    subprocess.check_call([binp, '-dir', REPO, '-overlay', os.path.join(ROOT, 'harness'), '-o', out], env=env)
    return out


def load(path=None):
    own = path is None
    if own:
        path = build_ssa()
    p = Program(path)
    if own:
        os.unlink(path)
    return p


def summaries_of(prog):
    pkg = prog.pkg
    out = {}
    for name in prog.funcs:
        short = name[len(pkg) + 1:] if name.startswith(pkg + '.') else None
        if short and short.startswith('sum_'):
            _, recv, meth = short.split('_', 2)
            out['(%s.%s).%s' % (pkg, recv, meth)] = name
    return out


def make_executor(prog, harness, opts=None):
    ex = Executor(prog, opts or {})
    ex.summaries = summaries_of(prog)
    if (opts or {}).get('cuts') == 'reduce':
        import cuts
        for callee, cutname in cuts.REDUCE_CUTS.items():
            ex.cuts[callee] = getattr(cuts, cutname)
    elif (opts or {}).get('cuts') == 'add':
        import cuts
        ex.cuts['(%s.Decimal).add' % prog.pkg] = cuts.cut_add
    elif (opts or {}).get('cuts') == 'pow':
        import cuts
        for callee, cutname in cuts.REDUCE_CUTS.items():
            ex.cuts[callee] = getattr(cuts, cutname)
        ex.cuts['(%s.decomposed192).log' % prog.pkg] = cuts.cut_end_path
        ex.cuts['(%s.Decimal).QuoWithMode' % prog.pkg] = cuts.cut_uf_decimal
    elif isinstance((opts or {}).get('cuts'), (list, tuple)):
        import cuts
        for name in opts['cuts']:
            ex.cuts['(%s.Decimal).%s' % (prog.pkg, name)] = cuts.cut_uf_decimal
    if harness == 'vh_lemma_compose':
        ex.compose_hook = False
    elif harness.startswith('vh_lemma_'):
        _, _, recv, meth = harness.split('_', 3)
        ex.summaries.pop('(%s.%s).%s' % (prog.pkg, recv, meth), None)
    return ex


def main():
    args = sys.argv[1:]
    ssa = None
    opts = {}
    while args and args[0].startswith('--'):
        a = args.pop(0)
        if a == '--ssa':
            ssa = args.pop(0)
        elif a == '--timeout':
            opts['timeout'] = int(args.pop(0))
        elif a == '--nomerge':
            opts['merge'] = False
        elif a == '--all':
            opts['stop_on_violation'] = False
        elif a == '--keep':
            opts['keep_unknown'] = args.pop(0)
        elif a == '--cut':
            opts['cuts'] = 'reduce'
        elif a == '--cutadd':
            opts['cuts'] = 'add'
        elif a == '--quo':
            opts['cuts'] = 'reduce'
            opts['loopcuts'] = [{'fn': 'Decimal.QuoWithMode', 'phis': ['exp', 'trunc'], 'allocs': ['sig', 'rem', 'oSig'], 'args': ['sig', 'rem', 'exp', 'trunc', 'oSig'], 'hook': 'vlc_quo128'},
                                {'fn': 'Decimal.QuoWithMode', 'phis': ['exp', 'sig64', 'rem64', 'carry'], 'allocs': ['oSig'], 'args': ['sig64', 'rem64', 'carry', 'exp', 'oSig'], 'hook': 'vlc_quo64'}]
        elif a == '--slow':
            opts['trace_slow'] = True
        else:
            raise SystemExit('unknown option ' + a)
    harness = args[0]
    hargs = [int(x) for x in args[1:]]
    t0 = time.time()
    prog = load(ssa)
    t1 = time.time()
    ex = make_executor(prog, harness, opts)
    try:
        ex.run(harness, hargs)
    except Unsupported as e:
        print('UNSUPPORTED:', e)
    t2 = time.time()
    print('load %.2fs run %.2fs paths=%d ended=%s forks=%d merges=%d trivial=%d insns=%d' % (
        t1 - t0, t2 - t1, ex.paths, ex.ended, ex.forks, ex.merges, ex.trivial_checks, ex.insn_count))
    print('solver stats', S.STATS)
    for ob in ex.obligations:
        o = dict(ob)
        o.pop('model', None)
        print(json.dumps(o, default=str))
    if ex.purity_violations:
        print('purity:', ex.purity_violations[:5])


if __name__ == '__main__':
    main()
