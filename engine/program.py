"""Loads the SSA JSON produced by frontend/ssa2json and pre-computes CFG facts."""
import json


class Func:
    __slots__ = ('name', 'params', 'freevars', 'blocks', 'external', 'results', 'pkg', '_ipdom', '_simple', 'nphis', 'file')

    def __init__(self, d):
        self.name = d['name']
        self.params = d.get('params') or []
        self.freevars = d.get('freevars') or []
        self.results = d.get('results') or []
        self.external = d.get('external', False)
        self.pkg = d.get('pkg')
        self.blocks = d.get('blocks') or []
        self._ipdom = None
        self._simple = {}
        self.nphis = []
        self.file = None
        for b in self.blocks:
            n = 0
            for ins in b['instrs']:
                if ins['op'] == 'Phi':
                    n += 1
                else:
                    break
            self.nphis.append(n)
            b['preds'] = b.get('preds') or []
            b['succs'] = b.get('succs') or []
            if self.file is None:
                for ins in b['instrs']:
                    if 'pos' in ins:
                        self.file = ins['pos'].split(':')[0]
                        break

    def ipdom(self):
        if self._ipdom is not None:
            return self._ipdom
        n = len(self.blocks)
        EXIT = n
        succs = [list(b['succs']) for b in self.blocks]
        for i, s in enumerate(succs):
            if not s:
                s.append(EXIT)
        # post-dominator sets (small graphs: simple iterative set algorithm)
        full = set(range(n + 1))
        pdom = [set(full) for _ in range(n + 1)]
        pdom[EXIT] = {EXIT}
        changed = True
        while changed:
            changed = False
            for i in range(n - 1, -1, -1):
                new = None
                for s in succs[i]:
                    new = set(pdom[s]) if new is None else (new & pdom[s])
                new = (new or set()) | {i}
                if new != pdom[i]:
                    pdom[i] = new
                    changed = True
        ip = [None] * n
        for i in range(n):
            cands = pdom[i] - {i}
            # immediate: the candidate that is post-dominated by all other candidates
            best = None
            for c in cands:
                if all((o in pdom[c]) for o in cands):
                    best = c
                    break
            ip[i] = None if best is None or best == EXIT else best
        self._ipdom = ip
        return ip

    def simple_region(self, b, limit=400):
        """If block b ends in an If: returns (J, loopfree) where J is the join block (immediate
        post-dominator) such that both arms can be run to J and the arriving states merged; None when
        there is no such block, b is a loop header (b reachable from its own successors) or the region is too big."""
        if b in self._simple:
            return self._simple[b]
        J = self.ipdom()[b]
        res = None
        if J is None:
            J = -1      # the arms only meet at the function's return: join = return to the caller
        if J is not None:
            seen = set()
            ok = True
            stack = list(self.blocks[b]['succs'])
            while stack and ok:
                x = stack.pop()
                if x == J or x in seen:
                    continue
                if x == b:
                    ok = False
                    break
                seen.add(x)
                if len(seen) > limit:
                    ok = False
                    break
                stack.extend(self.blocks[x]['succs'])
            if ok:
                # cycle detection inside the region
                color = {}
                loopfree = True

                def dfs(u):
                    color[u] = 1
                    for v in self.blocks[u]['succs']:
                        if v == J:
                            continue
                        c = color.get(v, 0)
                        if c == 1:
                            return False
                        if c == 0 and not dfs(v):
                            return False
                    color[u] = 2
                    return True
                for s in self.blocks[b]['succs']:
                    if s != J and color.get(s, 0) == 0:
                        if not dfs(s):
                            loopfree = False
                            break
                res = (J, loopfree)
        self._simple[b] = res
        return res


class Program:
    def __init__(self, path):
        with open(path) as f:
            d = json.load(f)
        self.pkg = d['pkg']
        self.types = d['types']
        self.funcs = {}
        for fd in d['funcs']:
            self.funcs[fd['name']] = Func(fd)
        self.globals = {g['n']: g['t'] for g in d['globals']}
        self.methods = d['methods']
        self.named = {}
        for i, t in enumerate(self.types):
            if t.get('named') and t.get('pkg') == self.pkg:
                self.named.setdefault(t['named'], i)

    def ty(self, tid):
        return self.types[tid]

    def instr_count(self, name):
        f = self.funcs.get(name)
        if f is None:
            return 0
        return sum(len(b['instrs']) for b in f.blocks)
