"""Per-property job lists (harness, args[, opts]) and evidence metadata."""


def c12_jobs(tier, seed):
    jobs = [('vh_c12_marshal', [])]
    for n in range(0, 65):
        jobs.append(('vh_c12_unmarshal', [n]))
    return jobs


PROPS = {
    'C12': {
        'jobs': c12_jobs,
        'must_reach': ['finite', 'roundtrip'],
        'bounds': {'all': 'all 2^128 bit patterns (two symbolic 64-bit words) for Marshal/decode/round trip; every byte-slice length 0..64 with all bytes symbolic for Unmarshal'},
        'outside': 'slices longer than 64 bytes',
        'assumptions': ['errors.New is an opaque non-nil error value'],
    },
}


# ---------------------------------------------------------------- shared rounding contract
R_MAXJ = {64: 0, 128: 5, 192: 24, 256: 44}


def r_jobs(widths, tier, seed=1, sample=None):
    """R-contract jobs.  quick: boundary classes and a seeded sample of the rest; thorough: everything"""
    import random
    rng = random.Random(seed)
    jobs = []
    for w in widths:
        maxj = R_MAXJ[w]
        js = list(range(0, maxj + 1))
        if tier == 'quick' and sample is not None and len(js) > sample:
            keep = {0, 1, maxj}
            rest = [j for j in js if j not in keep]
            rng.shuffle(rest)
            keep.update(rest[:max(0, sample - len(keep))])
            js = sorted(keep)
        for j in js:
            jobs.append(('vh_reduce_normal', [w, j]))
            jobs.append(('vh_reduce_subfar', [w, j]))
            us = list(range(1, 38))
            vs = list(range(1, 37)) if j == 0 else [1]
            if tier == 'quick' and sample is not None:
                us = sorted(set([1, 2, 34, 35, 36, 37] + rng.sample(us, 3)))
                vs = sorted(set([1, 2, 34, 35, 36] + rng.sample(vs, 2))) if j == 0 else [1]
            for u in us:
                jobs.append(('vh_reduce_sub', [w, j, u]))
            for v in vs:
                jobs.append(('vh_reduce_over', [w, j, v]))
            jobs.append(('vh_reduce_over', [w, j, 0]))
    return jobs


PROPS['R128'] = {'jobs': lambda tier, seed: r_jobs([128], tier, seed), 'validate': False}
PROPS['R64'] = {'jobs': lambda tier, seed: r_jobs([64], tier, seed), 'validate': False}
PROPS['R192'] = {'jobs': lambda tier, seed: r_jobs([192], tier, seed), 'validate': False}
PROPS['R256'] = {'jobs': lambda tier, seed: r_jobs([256], tier, seed), 'validate': False}
