"""Per-property job lists (harness, args[, opts]) and evidence metadata."""


def c12_jobs(tier, seed):
    jobs = [('vh_c12_marshal', [])]
    for n in range(0, 65):
        jobs.append(('vh_c12_unmarshal', [n]))
    return jobs


PROPS = {
    'C12': {
        'jobs': c12_jobs,
        'must_reach': ['finite', 'roundtrip'],
        'bounds': {'all': 'all 2^128 bit patterns (two symbolic 64-bit words) for Marshal/decode/round trip; every byte-slice length 0..64 with all bytes symbolic for Unmarshal'},
        'outside': 'slices longer than 64 bytes',
        'assumptions': ['errors.New is an opaque non-nil error value'],
    },
}


# ---------------------------------------------------------------- shared rounding contract
R_MAXJ = {64: 0, 128: 5, 192: 24, 256: 44}


def r_jobs(widths, tier, seed=1, sample=None):
    """R-contract jobs.  quick: boundary classes and a seeded sample of the rest; thorough: everything"""
    import random
    rng = random.Random(seed)
    jobs = []
    for w in widths:
        maxj = R_MAXJ[w]
        js = list(range(0, maxj + 1))
        if tier == 'quick' and sample is not None and len(js) > sample:
            keep = {0, 1, 2, 3, 4, 5, maxj}
            sample = max(sample, len(keep) + 2)
            rest = [j for j in js if j not in keep]
            rng.shuffle(rest)
            keep.update(rest[:max(0, sample - len(keep))])
            js = sorted(keep)
        for j in js:
            jobs.append(('vh_reduce_normal', [w, j]))
            jobs.append(('vh_reduce_subfar', [w, j]))
            us = list(range(1, 38))
            vs = list(range(1, 37)) if j == 0 else [1]
            if tier == 'quick' and sample is not None:
                us = sorted(set([1, 2, 34, 35, 36, 37] + rng.sample(us, 3)))
                vs = sorted(set([1, 2, 34, 35, 36] + rng.sample(vs, 2))) if j == 0 else [1]
            for u in us:
                jobs.append(('vh_reduce_sub', [w, j, u]))
            for v in vs:
                jobs.append(('vh_reduce_over', [w, j, v]))
            jobs.append(('vh_reduce_over', [w, j, 0]))
    return jobs


PROPS['R128'] = {'jobs': lambda tier, seed: r_jobs([128], tier, seed), 'validate': False}
PROPS['R64'] = {'jobs': lambda tier, seed: r_jobs([64], tier, seed), 'validate': False}
PROPS['R192'] = {'jobs': lambda tier, seed: r_jobs([192], tier, seed), 'validate': False}
PROPS['R256'] = {'jobs': lambda tier, seed: r_jobs([256], tier, seed), 'validate': False}


# ---------------------------------------------------------------- C01
CUT = {'cuts': 'reduce'}


def c01_jobs(tier, seed):
    import random
    rng = random.Random(seed)
    gaps = list(range(-74, 75))
    if tier == 'quick':
        keep = {0, 1, -1, 3, -3, 4, -4, 8, -8, 19, -19}
        rest = [g for g in range(-20, 21) if g not in keep]
        keep.update(rng.sample(rest, 3))
        gaps = sorted(keep)
    jobs = []
    for g in gaps:
        for sub in (0, 1):
            jobs.append(('vh_c01_gap', [g, sub], CUT))
    for side in (1, -1):
        for sub in (0, 1):
            jobs.append(('vh_c01_far', [side, sub], CUT))
    jobs.append(('vh_c01_default', [1000], {'cuts': 'add'}))
    jobs += r_jobs([128, 192], tier, seed, sample=4)
    return jobs


PROPS['C01'] = {
    'jobs': c01_jobs,
    'must_reach': ['C01:rounded', 'C01:cancel', 'C01:zero+zero', 'C01:far', 'C01:default', 'R:finite', 'R:overflow', 'R:flush'],
    'bounds': {
        'quick': 'exponent gaps: a boundary set of 31 gaps in -74..74 plus 6 seeded ones, each for Add and Sub, plus both far regions |gap|>=75 (gap symbolic); per gap all coefficients, signs, cohort members, the smaller exponent and all 6 modes symbolic. Rounding kernel reduce128 (classes 0..5) and reduce192 (classes 0,1,24 + 2 seeded of 0..24): normal region, flush region, 9 of 37 subnormal depths, overflow region. Loop bound 600.',
        'thorough': 'every exponent gap -74..74 for Add and Sub, both far regions; reduce128 and reduce192 contracts for every class and every subnormal depth 1..37 / overflow excess.',
    },
    'outside': 'nothing within the quantifier is excluded in the thorough tier; the quick tier samples gaps and kernel classes (boundary ones always).',
    'assumptions': ['assume-guarantee: callers are checked against the rounding kernel contract R; R itself is checked by vh_reduce_* under precondition P, and P is an obligation at every call site',
                    'sticky flag t denotes an offset strictly between 0 and 1 unit of the kernel input; sound because P forces at least one dropped digit'],
    'validate_per_harness': 3,
    'job_budget': {'quick': 400, 'thorough': 6000},
}


# ---------------------------------------------------------------- C04
def c04_jobs(tier, seed):
    jobs = []
    for g in range(-36, 37):
        jobs.append(('vh_c04_gap', [g]))
    jobs.append(('vh_c04_far', [1]))
    jobs.append(('vh_c04_far', [-1]))
    for cd in range(4):
        for co in range(4):
            if cd or co:
                jobs.append(('vh_c04_special', [cd, co]))
    return jobs


PROPS['C04'] = {
    'jobs': c04_jobs,
    'must_reach': ['C04:finite', 'C04:zeros', 'C04:nan', 'C04:inf'],
    'bounds': {'all': 'every exponent gap -36..36 individually and both far regions |gap|>=36 (gap symbolic); per gap both full 128-bit patterns symbolic (all coefficients, cohort members, zeros of any exponent, both signs); all 15 special class pairs with symbolic sign/payload/garbage bits. Cmp, CmpAbs, Equal, Compare, Min, Max, IsZero, Sign and the CmpResult predicates.'},
    'outside': 'antisymmetry/transitivity are corollaries of agreement with the exact order and are not separate queries',
    'assumptions': [],
    'validate_per_harness': 4,
}


# ---------------------------------------------------------------- C08
def c08_jobs(tier, seed):
    import random
    rng = random.Random(seed)
    combos = []
    for k in range(0, 37):
        if k == 0:
            ovs = [0]
        elif k <= 35:
            ovs = list(range(0, k + 1))
        else:
            ovs = list(range(0, 37))
        for ov in ovs:
            combos.append((k, ov))
    if tier == 'quick':
        keep = set()
        for k in (0, 1, 2, 19, 35, 36):
            for ov in (0, 1, min(k, 35), 36 if k == 36 else 0):
                if (k, ov) in set(combos):
                    keep.add((k, ov))
        rest = [c for c in combos if c not in keep]
        keep.update(rng.sample(rest, 4))
        combos = sorted(keep)
    jobs = []
    for fn in (0, 1, 2):
        for k, ov in combos:
            jobs.append(('vh_c08', [fn, k, ov]))
    for c in (1, 2, 3):
        jobs.append(('vh_c08_special', [c]))
    jobs.append(('vh_c08_pkg', [], {'cuts': ['Round', 'Ceil', 'Floor']}))
    return jobs


PROPS['C08'] = {
    'jobs': c08_jobs,
    'must_reach': ['C08:rounded', 'C08:unchanged', 'C08:tozero', 'C08:zero', 'C08:onequantum', 'C08:inf', 'C08:largequantum', 'C08:special', 'C08:pkg'],
    'bounds': {
        'quick': 'digits dropped k in {0,1,2,19,35,>=36} x quantum exponent class ov in {<=12287, 12287+1, 12287+min(k,35), >=12287+36} plus 4 seeded (k,ov) pairs, for Round (6 modes symbolic), Ceil and Floor; coefficient, exponent, sign and dp (all of int64, tied to k/ov) symbolic; NaN/Inf pass-through; package functions.',
        'thorough': 'every k in 0..35 and >=36 x every ov in 0..k (resp. 0..36) for Round, Ceil, Floor.'},
    'outside': 'idempotence and the one-quantum distance bound are corollaries of the value specification and are not separate queries',
    'assumptions': [],
    'validate_per_harness': 6,
}


# ---------------------------------------------------------------- C11
def c11_jobs(tier, seed):
    jobs = []
    for r in (0, 1, 2):
        jobs.append(('vh_c11_new', [r], CUT))
        jobs.append(('vh_c11_ldexp', [r], CUT))
    jobs.append(('vh_c11_frexp', [], CUT))
    jobs += r_jobs([64, 128], tier, seed, sample=4)
    return jobs


PROPS['C11'] = {
    'jobs': c11_jobs,
    'must_reach': ['C11:new', 'C11:newzero', 'C11:newinf', 'C11:new0', 'C11:ldexp', 'C11:ldexpzero', 'C11:ldexpinf', 'C11:ldexpspecial', 'C11:frexp', 'C11:frexpspecial', 'R:finite', 'R:flush', 'R:overflow', 'R:clamped'],
    'bounds': {'quick': 'New: all int64 coefficients x every int exponent in three regions (below -6195, -6195..6150, above); Ldexp: every 128-bit pattern x every int exponent in three regions of the total exponent; Frexp: every 128-bit pattern; DefaultRoundingMode symbolic (6 modes). Rounding kernels reduce64 (all subnormal depths/overflow excesses sampled in quick) and reduce128.',
               'thorough': 'same entry-point queries; reduce64/reduce128 contracts for every subnormal depth 1..37 and overflow excess 1..36.'},
    'outside': 'Ldexp(Frexp(d)) == d is a corollary of the two value specifications',
    'assumptions': ['assume-guarantee at the rounding kernel (contract R, precondition P proved at the call sites)',
                    'rounding follows DefaultRoundingMode (nearest-even by default), checked for all six values'],
    'validate_per_harness': 3,
}


# ---------------------------------------------------------------- C19
def c19_jobs(tier, seed):
    return [('vh_c19_canonical', [c]) for c in (0, 1, 2, 3)]


PROPS['C19'] = {
    'jobs': c19_jobs,
    'must_reach': ['C19:finite', 'C19:zero', 'C19:inf', 'C19:nan'],
    'bounds': {'all': 'Canonical on every 128-bit pattern (finite incl. all cohort members and zeros, +-Inf and NaN with arbitrary payload/garbage bits); both scaling loops fully unrolled (<= 36 iterations each, loop bound 600 never reached).'},
    'outside': 'encoding independence of Exp/Log/Sqrt/Cbrt/Pow general path, formatting and conversions is not covered here (C16/C17 not applicable; see the per-property checks for the others)',
    'assumptions': ['identical bits <=> Equal follows from the unique-member characterisation proved here plus C04 (Equal agrees with the exact order)'],
    'validate_per_harness': 4,
}


# ---------------------------------------------------------------- C02
QUO_CUTS = {'cuts': 'reduce', 'loopcuts': [
    {'fn': 'Decimal.QuoWithMode', 'phis': ['exp', 'trunc'], 'allocs': ['sig', 'rem', 'oSig'], 'args': ['sig', 'rem', 'exp', 'trunc', 'oSig'], 'hook': 'vlc_quo128'},
    {'fn': 'Decimal.QuoWithMode', 'phis': ['exp', 'sig64', 'rem64', 'carry'], 'allocs': ['oSig'], 'args': ['sig64', 'rem64', 'carry', 'exp', 'oSig'], 'hook': 'vlc_quo64'}]}


def c02_jobs(tier, seed):
    jobs = [('vh_c02_quo', [0, c], QUO_CUTS) for c in range(10)] + [('vh_c02_quo', [1, c], QUO_CUTS) for c in range(5)]
    # time-boxed bounded unrolling with the real operands: turns a failing induction step into a replayable witness
    tb = 150 if tier == 'quick' else 900
    jobs += [('vh_c02_quo', [p, -2], {'cuts': 'reduce', 'best_effort': True, 'job_budget': tb, 'timeout': 20}) for p in (0, 1)]
    jobs += [('vh_c02_mul', [], CUT),
            ('vh_c02_default', [], {'cuts': ['MulWithMode', 'QuoWithMode']})]
    jobs += r_jobs([128, 256], tier, seed, sample=4)
    return jobs


PROPS['C02'] = {
    'jobs': c02_jobs,
    'must_reach': ['C02:mul', 'C02:mulzero', 'C02:default', 'R:finite', 'R:flush', 'R:overflow', 'C02:quo', 'C02:quo128base', 'C02:quo128step', 'C02:quo64base', 'C02:quo64step'],
    'bounds': {'quick': 'MulWithMode: both full 128-bit finite patterns, mode symbolic: the exact 226-bit product reaches reduce128/reduce256 with the summed exponent, XOR sign and no sticky; zero products; Mul/Quo == WithMode(DefaultRoundingMode) for every DefaultRoundingMode. QuoWithMode: all finite non-zero operand pairs, mode symbolic, split into the 128-bit path and the 64-bit fast path: every dividend pre-scaling path (real operands) establishes sig*o + rem == D*10^k; one-step induction over both digit loops from an arbitrary invariant state (10 resp. 5 magnitude classes of max(sig, rem), together covering all states; divisor fresh), exit obligations floor/sticky/precondition P; time-boxed (150 s) depth-first unrolling with the real operands. Kernel contracts reduce128 (all classes) and reduce256 (classes 0..5, 44 + seeded) incl. subnormal, flush and overflow regions (sampled depths). Loop bound 600.',
               'thorough': 'same, with every reduce256 class 0..44 and every subnormal depth / overflow excess; 900 s real-operand unrolling.'},
    'outside': 'the induction principle itself and the step from the loop invariant to the exact quotient (argued, not solved); the body of uint128.div (used through its mathematical contract, lemma undecided); Quo special operands are covered under C15.',
    'assumptions': ['assume-guarantee at the rounding kernel (contract R, precondition P proved at the call sites)',
                    'uint128.div(n, o) == (n div o, n mod o): used as a contract, its lemma is not proved (undecided at 60 s)',
                    'loop cut: the loop-carried variables at the cut headers are exactly the phi nodes / local arrays named in engine/props.py QUO_CUTS; exp stays within 80 of its initial value (consequence of the induction hypothesis)'],
    'validate_per_harness': 6,
    'job_budget': {'quick': 1500, 'thorough': 3000},
    'assumed_contracts': ['uint128).div'],
    'timeout': {'quick': 120, 'thorough': 300},
}


# ---------------------------------------------------------------- C15
FPTABLE = None


def c15_jobs(tier, seed):
    jobs = [('vh_c15_classify', [], CUT)]
    tab = FPTABLE
    for op in range(4):
        for cd in range(7):
            for co in range(7):
                want = tab['bin'][(op, cd, co)]
                if cd >= 5 and co >= 5:
                    continue           # finite non-zero x finite non-zero: numeric properties C01/C02
                if want == 5 and cd != 0 and co != 0:
                    # a finite non-zero result from a zero/finite pair (x + 0 = x): value is C01/C02's business
                    pass
                jobs.append(('vh_c15_binop', [op, cd, co, want], CUT))
    for fn in range(10):
        for cd in range(7):
            want, wantv = tab['un'][(fn, cd)]
            if cd == 5:
                continue               # positive finite: numeric (C16/C17)
            if cd == 6 and want != 0:
                continue               # negative finite with a finite result: numeric
            if fn == 9 and cd == 6:
                for sub in range(0, 36):
                    jobs.append(('vh_c15_unary', [fn, cd, want, wantv, sub], CUT))
            else:
                jobs.append(('vh_c15_unary', [fn, cd, want, wantv, 0], CUT))
    for cd in range(7):
        for co in range(7):
            if cd >= 5 and co >= 5:
                continue
            jobs.append(('vh_c15_quorem', [cd, co], CUT))
    return jobs


PROPS['C15'] = {
    'jobs': c15_jobs,
    'needs_fptable': True,
    'must_reach': ['C15:classify', 'C15:binop', 'C15:invalid', 'C15:nanprop', 'C15:unary', 'C15:invalid1', 'C15:nanprop1', 'C15:quorem'],
    'bounds': {'all': 'Add, Sub, Mul, Quo (under every DefaultRoundingMode), QuoRemWithMode: all 7x7 operand class pairs with at least one operand NaN/Inf/zero; Sqrt, Cbrt, Exp, Exp2, Exp10, Expm1, Log, Log2, Log10, Log1p on NaN, +-Inf, +-0 and (where the float64 result is NaN) negative finite arguments; inside each class every bit is symbolic (payload, sign, garbage bits, zero exponent, finite value). Expected classes come from the float64 operations of the installed Go toolchain run natively at check time. Classification predicates on all 2^128 patterns.'},
    'outside': 'finite non-zero operand pairs (numeric results: C01-C03, C16-C18); the math.Pow special-case table (see C18); Round/Ceil/Floor pass-through is in C08, Min/Max/Cmp with specials in C04',
    'assumptions': ['assume-guarantee cut at the rounding kernel for the finite paths that are reached (x + 0 etc.)'],
    'trusted': ['float64 arithmetic and package math of the installed Go toolchain as the reference for special-operand result classes'],
    'validate_per_harness': 5,
}


# ---------------------------------------------------------------- C10
def c10_jobs(tier, seed):
    import random
    rng = random.Random(seed)
    jobs = [('vh_c10_from', [], CUT)]
    es = list(range(-36, 41)) + [100, 101, 6111]
    if tier == 'quick':
        keep = {-36, -35, -19, -18, -1, 0, 1, 9, 10, 18, 19, 20, 38, 39, 40, 100, 101, 6111}
        keep.update(rng.sample([e for e in range(-36, 41) if e not in keep], 4))
        es = sorted(keep)
    for which in range(4):
        for e in es:
            jobs.append(('vh_c10_fixed', [which, e], CUT))
        for c in (1, 2, 3):
            jobs.append(('vh_c10_fixed_special', [which, c], CUT))
    ies = [100] + list(range(-36, 41)) + [200, 6111]
    if tier == 'quick':
        ies = [100, -36, -35, -20, -1, 0, 1, 19, 40, 200, 6111] + rng.sample(list(range(-34, 40)), 3)
    for e in ies:
        for reuse in (0, 1):
            jobs.append(('vh_c10_int', [e, reuse], CUT))
    res_ = list(range(-40, 41)) + [-6176, 6111]
    if tier == 'quick':
        res_ = [-6176, -40, -1, 0, 1, 40, 6111] + rng.sample(list(range(-39, 40)), 3)
    for e in res_:
        jobs.append(('vh_c10_rat', [e], CUT))
    for bits in ([64, 128, 130, 200] if tier == 'quick' else [64, 128, 130, 200, 260, 300]):
        jobs.append(('vh_c10_fromint', [bits], CUT))
    jobs += r_jobs([128], tier, seed, sample=4)
    return jobs


PROPS['C10'] = {
    'jobs': c10_jobs,
    'must_reach': ['C10:fits', 'C10:satlow', 'C10:sathigh', 'C10:nanpanic', 'C10:infsat', 'C10:from', 'C10:int', 'C10:rat', 'C10:fromint', 'C10:fromint0'],
    'bounds': {'quick': 'Int64/Int32/Uint64/Uint32: exponents {-36,-35,-19,-18,-1,0,1,9,10,18,19,20,38,39,40, 6111} + 4 seeded in -36..40 individually and the regions below -36 / above 40 (symbolic exponent), coefficient and sign symbolic; NaN/Inf; FromInt64/32/Uint64/32 on all inputs; Int (nil and reused big.Int with arbitrary previous value) and Rat for sampled exponents; FromInt for all integers below 2^64, 2^128, 2^130, 2^200 of either sign under every DefaultRoundingMode (rounding kernel cut, reduce128 contract checked).',
               'thorough': 'every exponent -36..40 (+ regions, 6111) for the fixed-width conversions, Int and Rat; FromInt up to 300 bits.'},
    'outside': 'FromInt for integers of 301 bits and more (the property mentions ~20k bits); FromRat (it is FromInt(num).Quo(FromInt(den)) and the division loops are not covered, see C02); Rat normalisation (only the denoted value is checked)',
    'assumptions': ['math/big modelled as exact mathematical integers/rationals with the documented semantics of SetUint64, Lsh, Or, Neg, Exp, Mul, Quo (truncated), QuoRem (truncated), Sign, BitLen, Bits, Set, Rat.SetUint64/SetInt/SetFrac/Neg'],
    'trusted': ['the math/big model in engine/intrinsics.py (validated against the real package by the native replay of random concrete runs)'],
    'validate_per_harness': 4,
    'job_budget': {'quick': 600, 'thorough': 3000},
}


# ---------------------------------------------------------------- C14
def c14_jobs(tier, seed):
    jobs = []
    nbs = [0, 1, 7, 8, 9, 13] if tier == 'quick' else list(range(0, 14))
    for (bl, bc) in ((0, -1), (0, 0), (3, 15), (5, 16), (0, 32)):
        for cls in (1, 2, 3):
            jobs.append(('vh_c14_decompose', [cls, bl, bc, 0], CUT))
        for nb in nbs:
            jobs.append(('vh_c14_decompose', [0, bl, bc, nb], CUT))
    for form in (1, 2, 3, 255):
        jobs.append(('vh_c14_forms', [form], CUT))
    ns = list(range(5, -1, -1)) if tier == 'quick' else list(range(10, -1, -1))
    for n in ns:
        for region in (0, 1, 2):
            jobs.append(('vh_c14_compose', [n, region], CUT))
    return jobs


PROPS['C14'] = {
    'jobs': c14_jobs,
    'must_reach': ['C14:decompose', 'C14:forms', 'C14:composezero', 'C14:composeok', 'C14:composeerr'],
    'bounds': {'quick': 'Decompose on Inf, NaN and finite patterns whose coefficient has 0,1,7,8,9 or 13 significant bytes (thorough: 0..13) with nil / short / exact / large caller buffers and the real Compose applied to its output; Compose of every coefficient byte string of length 0..5 (all bytes symbolic, leading zeros included), both signs, every int32 exponent (three regions), forms 0,1,2 and unknown forms.',
               'thorough': 'coefficient byte strings of length 0..10.'},
    'outside': 'the Decompose->Compose round trip for coefficients of 14 or 15 significant bytes (2^104 .. 5*2^111-1): those obligations stay undecided at 120 s; coefficients longer than 10 bytes (the 17..32-byte uint256 path and the big.Int path beyond 32 bytes are not reached by the bounded strings; the property mentions several hundred bytes)',
    'assumptions': [],
    'validate_per_harness': 4,
    'job_budget': {'quick': 900, 'thorough': 6000},
    'workers': 8,
    'timeout': {'quick': 120, 'thorough': 300},
}


# ---------------------------------------------------------------- C05
def c05_jobs(tier, seed):
    jobs = []
    maxl = 5 if tier == 'quick' else 7
    for L in range(0, maxl + 1):
        jobs.append(('vh_c05_parse', [L, 0], CUT))
    for L in range(0, (4 if tier == 'quick' else 6) + 1):
        jobs.append(('vh_c05_parse', [L, 1], CUT))
        jobs.append(('vh_c05_scan', [L], CUT))
    for L in range(0, 4):
        jobs.append(('vh_c05_mustparse', [L]))
    nds = [1, 19, 20, 21, 38, 39, 40, 41, 45] if tier == 'quick' else list(range(1, 49))
    for nd in nds:
        dots = sorted(set([-1, 0, 1, nd // 2, nd - 1]))
        for dot in dots:
            if dot >= nd:
                continue
            for suffix in (0, 1, -1):
                jobs.append(('vh_c05_digits', [nd, dot, suffix], CUT))
    jobs += r_jobs([128], tier, seed, sample=4)
    return jobs


PROPS['C05'] = {
    'jobs': c05_jobs,
    'must_reach': ['C05:invalid', 'C05:inf', 'C05:nan', 'C05:zero', 'C05:number', 'C05:mustparse', 'C05:long', 'C05:scannum', 'C05:scanerr', 'R:finite'],
    'bounds': {'quick': 'Parse: every byte string of length 0..5 (all bytes symbolic); UnmarshalText and Scan (stub ScanState, ASCII, no white space): length 0..4; MustParse: length 0..3; digit-heavy literals with 1,19,20,21,38,39,40,41,45 symbolic digits, a decimal point at 5 positions and an optional 4-digit symbolic exponent of either sign (covers the 19-digit and 38/39-digit accumulator switches, the sticky flag, sub-normal and overflow thresholds); DefaultRoundingMode symbolic; rounding kernel cut (reduce128 contract checked).',
               'thorough': 'Parse strings up to 7 bytes, UnmarshalText/Scan up to 6; digit-heavy literals for every digit count 1..48.'},
    'outside': 'literals longer than the stated bounds (the property mentions >65k digits: the int16 counter wrap found by the design probes was repaired, but unbounded length is not proved; the one-step induction over the scanning loops planned in DESIGN.md §1.5 is not built); underscores inside digit-heavy literals; Scan through the real fmt package (a stub ScanState following the documented contract is used)',
    'assumptions': ['fmt.ScanState replaced by a byte-buffer stub implementing ReadRune/UnreadRune/SkipSpace/Token per the interface documentation',
                    'strconv.ErrSyntax / strconv.ErrRange / io.EOF are opaque distinct values; errors.Is modelled as identity or the error\'s own Is method',
                    'assume-guarantee at the rounding kernel'],
    'validate_per_harness': 3,
}


# ---------------------------------------------------------------- C20
def c20_jobs(tier, seed):
    jobs = [('vh_c20_simple', []), ('vh_c20_cmpany', []), ('vh_c15_classify', [], CUT)]
    for fn in (0, 1, 2):
        for (k, ov) in ((0, 0), (1, 0), (2, 1), (36, 0), (36, 36)):
            jobs.append(('vh_c08', [fn, k, ov]))
    jobs += [('vh_c08_special', [c]) for c in (1, 2, 3)]
    # a totality/purity subset of the other properties' harnesses (fully symbolic regions)
    jobs += [('vh_c12_marshal', [])] + [('vh_c12_unmarshal', [n]) for n in (0, 15, 16, 17, 64)]
    jobs += [('vh_c19_canonical', [c]) for c in (0, 1, 2, 3)]
    jobs += [('vh_c11_new', [r], CUT) for r in (0, 1, 2)] + [('vh_c11_ldexp', [r], CUT) for r in (0, 1, 2)] + [('vh_c11_frexp', [], CUT)]
    jobs += [('vh_c04_far', [1]), ('vh_c04_far', [-1])] + [('vh_c04_special', [a, b]) for a in range(4) for b in range(4) if a or b]
    jobs += [('vh_c01_far', [s, sub], CUT) for s in (1, -1) for sub in (0, 1)]
    jobs += [('vh_c02_mul', [], CUT), ('vh_c10_fromint', [130], CUT), ('vh_c10_int', [100, 1], CUT), ('vh_c10_int', [0, 1], CUT)]
    jobs += [('vh_c10_from', [], CUT)] + [('vh_c10_fixed', [w, e], CUT) for w in range(4) for e in (100, 101)] + [('vh_c10_fixed_special', [w, c], CUT) for w in range(4) for c in (1, 2, 3)]
    jobs += [('vh_c05_parse', [L, 0], CUT) for L in range(0, 4)] + [('vh_c05_mustparse', [L]) for L in range(0, 3)]
    jobs += [('vh_c14_forms', [f], CUT) for f in (1, 2, 3, 255)] + [('vh_c14_compose', [n, r], CUT) for n in (0, 1, 2) for r in (0, 1, 2)]
    jobs += r_jobs([64, 128], tier, seed, sample=4)
    return jobs


PROPS['C20'] = {
    'jobs': c20_jobs,
    'must_reach': ['C20:simple', 'C20:cmpany', 'C15:classify'],
    'bounds': {'all': 'Totality (no panic other than the documented ones, no out-of-range index, nil dereference, loop bound 600/7000 never exceeded) and purity (no store to any package variable by library code) for: Abs, Neg, IsNaN, IsInf, IsZero, Signbit, Sign, Payload, Payload.String, RoundingMode.String, Inf, NaN, Canonical, Compare, Equal, Cmp, CmpAbs, Min, Max, Round/Ceil/Floor (the regions k in {0,1,2,>=36} of C08 with dp over all of int64), Frexp, New, Ldexp, MarshalBinary, UnmarshalBinary (lengths 0..64), FromInt64/32/Uint64/32, Int64/Int32/Uint64/Uint32 (far exponent regions and specials), Add/Sub in the far-gap regions, Mul, Parse/MustParse (strings up to 3 bytes), Compose (forms, coefficients up to 2 bytes), reduce64/reduce128/round; all arguments symbolic inside the stated regions.'},
    'outside': 'Exp/Exp2/Exp10/Expm1/Log*/Sqrt/Cbrt/Pow numeric paths, Quo/QuoRem digit loops, Format/Append/String/MarshalText/MarshalJSON, Scan through the real fmt package, Float/Float32/Float64/FromFloat*, FromRat, Add/Sub for gaps below 75 other than those checked under C01, strings and byte slices longer than the stated bounds, precisions/widths; interleavings of concurrent calls are NOT explored: data-race freedom is argued from the absence of writes to shared state (every store target is resolved to a concrete object during symbolic execution and a store to a package variable by library code fails the check)',
    'assumptions': ['determinism: the executor is a deterministic interpreter of the SSA; results depend only on the arguments and DefaultRoundingMode (the only package variable read that the harnesses make symbolic)'],
    'validate_per_harness': 2,
}


# ---------------------------------------------------------------- C13 (decoding half)
def c13_jobs(tier, seed):
    jobs = [('vh_c13_unmarshal', [L], CUT) for L in range(0, (5 if tier == 'quick' else 7) + 1)]
    jobs += r_jobs([128], tier, seed, sample=4)
    return jobs


PROPS['C13'] = {
    'jobs': c13_jobs,
    'must_reach': ['C13:null', 'C13:reject', 'C13:number', 'C13:zero', 'C13:lenient'],
    'bounds': {'quick': 'UnmarshalJSON on every byte string of length 0..5 (all bytes symbolic), DefaultRoundingMode symbolic: null/empty leave the receiver untouched; every RFC 8259 number gives exactly the value the text denotes (rounding kernel cut, reduce128 contract checked); every other input is an error (*json.UnmarshalTypeError, receiver untouched) or one of the lenient numeral forms of the shared parser with exactly the denoted value.',
               'thorough': 'byte strings up to 7 bytes.'},
    'outside': 'MarshalJSON and the round trip through it (the formatting code is not encoded: see C06/C07); encoding/json plumbing (structs, slices, maps) is replaced by its documented contract; inputs longer than the stated bound',
    'assumptions': ['encoding/json hands UnmarshalJSON the raw token; the method is driven directly with arbitrary bytes (a superset)', 'reflect.TypeOf/ValueOf are opaque'],
    'validate_per_harness': 6,
}


# ---------------------------------------------------------------- C18 (special-case ladder)
def c18_jobs(tier, seed):
    jobs = []
    tab = FPTABLE['pow']
    POW = {'cuts': 'pow'}
    for cx in range(11):
        for cy in range(13):
            want, wantv = tab[(cx, cy)]
            if want == 6 and cx >= 7 and cy >= 7:
                continue        # finite base and exponent, finite result: the general path (outside this check)
            jobs.append(('vh_c18_table', [cx, cy, want, wantv], POW))
    for p in range(0, 9):
        jobs.append(('vh_c18_pow10', [p], POW))
    return jobs


PROPS['C18'] = {
    'jobs': c18_jobs,
    'needs_fptable': True,
    'must_reach': ['C18:y0', 'C18:x1', 'C18:y1', 'C18:ym1', 'C18:nan', 'C18:table', 'C18:invalid', 'C18:p10', 'C18:p10inf', 'C18:p10zero'],
    'bounds': {'all': 'PowWithMode special-case ladder: all 11 x 13 operand class pairs (NaN, +-Inf, +-0, +-1 in every cohort encoding, |x|>1, |x|<1 of either sign; y NaN, +-Inf, +-0, +-1, odd/even integers, non-integers of either sign) with every bit inside a class symbolic and the mode symbolic; expected result classes/values from math.Pow of the installed toolchain; y=0 -> 1, x=1 -> 1, y=1 -> x bit-identical, y=-1 -> the mode-rounded reciprocal (QuoWithMode as an uninterpreted function), NaN propagation, negative base with non-integer exponent -> NaN with the Pow payload; powers of ten raised to integers n x 10^p (p 0..8, n <= 10^6) give exactly 10^(a*n*10^p) or +Inf / +0 beyond the range.',},
    'outside': 'the general path (log -> mul -> exp -> rcp), its error bound and the overflow/underflow decisions taken after it (any path that reaches decomposed192.log ends there; see C16); integer / half-integer exponents in encodings other than exponent 0 / -1; the +-0.5 shortcut for even powers of ten; Pow == PowWithMode(DefaultRoundingMode)',
    'assumptions': ['QuoWithMode is an uninterpreted function in this check (its own correctness is C02)', 'assume-guarantee at the rounding kernel'],
    'trusted': ['math.Pow of the installed Go toolchain as the reference for the special-case table'],
    'validate_per_harness': 3,
}


# ---------------------------------------------------------------- C06 / C13 (encoding half): default text output
def lz_pairs(tier, seed, n_extra=10):
    """(digit count L, trailing zeros z) classes of the coefficient used by the formatting checks"""
    allp = [(L, z) for L in range(1, 36) for z in range(0, L)]
    if tier != 'quick':
        return allp
    import random
    rng = random.Random(seed * 7 + 1)
    keep = {(1, 0), (2, 0), (2, 1), (3, 1), (7, 2), (16, 0), (17, 3), (19, 0), (19, 18), (20, 0), (20, 1), (20, 19), (21, 0), (21, 2),
            (22, 21), (33, 0), (34, 0), (34, 1), (34, 33), (35, 0), (35, 1), (35, 34)}
    rest = [p for p in allp if p not in keep]
    keep.update(rng.sample(rest, n_extra))
    return sorted(keep)


C06_ADJ = list(range(-8, 9)) + [18, 19, 20, 21] + list(range(102, 110))


def c06_jobs(tier, seed, whiches=tuple(range(10))):
    import random
    rng = random.Random(seed)
    pairs = lz_pairs(tier, seed)
    jobs = []
    if tier == 'quick':
        for w in whiches:
            for adj in C06_ADJ:
                if w == 5 and adj >= 100:
                    continue
                for (L, z) in rng.sample(pairs, 8 if len(whiches) < 4 else 5):
                    jobs.append(('vh_c06_text', [w, L, z, adj]))
    else:
        k = 0
        for (L, z) in pairs:
            for adj in C06_ADJ:
                k += 1
                w = whiches[k % len(whiches)]
                if w == 5 and adj >= 100:
                    w = whiches[(k + 1) % len(whiches)]
                    if w == 5:
                        continue
                jobs.append(('vh_c06_text', [w, L, z, adj]))
    for w in whiches:
        if w <= 2:
            for cls in (0, 1, 2, 3):
                jobs.append(('vh_c06_special', [w, cls]))
    return jobs


PROPS['C06'] = {
    'jobs': c06_jobs,
    'must_reach': ['C06:text', 'C06:roundtrip', 'C06:zero', 'C06:special', 'digits:lemma'],
    'bounds': {'quick': 'MarshalText, String, Append/Format with precision -1 (e, E, f, g, G), Decimal.Append("v"), Decimal.Format(State, v) on every finite Decimal whose coefficient has L digits of which z are trailing zeros, for 32 (L,z) classes (22 boundary + 10 seeded of all 630) x decimal exponent of the leading digit in {-8..8, 18..21} individually and in the classes [-9,-5], [-99,-10], [-999,-100], <=-1000, [6,9], [10,99], [100,999], >=1000 (exponent symbolic inside a class; 2 seeded (L,z) classes per entry point and exponent class); coefficient, sign and exponent symbolic; the produced bytes are read back by an independent numeral reader (exact value, sign, no superfluous digits, form thresholds, exponent layout) and fed to the real UnmarshalText / Parse / Scan (stub ScanState); zeros of any exponent, NaN, +-Inf. Decimal.digits is replaced by its contract, which is proved against the real body for the same (L,z) classes.',
               'thorough': 'all 630 (L,z) classes x all 29 exponent classes, entry points rotated over the configurations.'},
    'outside': "'f' with precision -1 for exponents outside -8..21 (output length grows with the exponent); %v through the real fmt package (a stub fmt.State is used); fmt.Sscan through the real fmt package (a stub ScanState is used)",
    'assumptions': ['assume-guarantee: Decimal.digits is replaced by its contract over mathematical integers (vh_lemma_Decimal_digits proves real body == contract per (L,z) class on every run)',
                    'fmt.State / fmt.ScanState replaced by small concrete stubs following the interface documentation'],
    'validate_per_harness': 6,
    'job_budget': {'quick': 300, 'thorough': 600},
}


def c13_jobs2(tier, seed):
    jobs = c13_jobs(tier, seed)
    jobs += c06_jobs(tier, seed, whiches=(2,))
    return jobs


PROPS['C13']['jobs'] = c13_jobs2
PROPS['C13']['must_reach'] += ['C13:marshal', 'C13:unsupported', 'C06:roundtrip', 'digits:lemma']
PROPS['C13']['bounds'] = {
    'quick': PROPS['C13']['bounds']['quick'] + ' MarshalJSON: every finite Decimal in 32 (digit count, trailing zeros) coefficient classes (22 boundary + 10 seeded of 630) x 29 classes of the decimal exponent of the leading digit (-8..8, 18..21 individually; [-9,-7], [-99,-10], [-999,-100], <=-1000, [20,99], [100,999], >=1000 with the exponent symbolic), 8 seeded coefficient classes per exponent class: output accepted by an independent RFC 8259 number recogniser, denotes the value exactly with its sign and no superfluous digits, positional/exponent thresholds, and the real UnmarshalJSON on it returns the same value and sign; zeros; NaN/Inf give *json.UnsupportedValueError. Decimal.digits is replaced by its contract (proved against the real body for the same classes).',
    'thorough': PROPS['C13']['bounds']['thorough'] + ' MarshalJSON for all 630 coefficient classes x 29 exponent classes.'}
PROPS['C13']['outside'] = 'encoding/json plumbing (structs, slices, maps) is replaced by its documented contract (it calls MarshalJSON / hands UnmarshalJSON the raw token); UnmarshalJSON inputs longer than the stated bound'
PROPS['C13']['assumptions'] += ['assume-guarantee: Decimal.digits is replaced by its contract (vh_lemma_Decimal_digits)']


# ---------------------------------------------------------------- C07: formatting with a precision
C07_PRECS = [-1, 0, 1, 2, 3, 4, 5, 6, 7, 15, 33, 34, 35, 40]
C07_ADJ = list(range(-8, 10)) + [20, 21, 99, 100, 999, 1000, -99, -100, -1000, 6100, -6100]
C07_WIDTHS = [0, 1, 7, 15, 30, 45]


def c07_jobs(tier, seed):
    import random
    rng = random.Random(seed * 13 + 5)
    pairs = lz_pairs(tier, seed)
    jobs = []
    seen = set()

    def add(v, p, L, z, adj, fl, w):
        if v in (2, 3) and not (-8 <= adj <= 21):
            return
        if L > 0 and not (-6176 <= adj - (L - 1) <= 6111):
            return
        key = (v, p, L, z, adj, fl, w)
        if key in seen:
            return
        seen.add(key)
        jobs.append(('vh_c07', list(key)))

    # boundary configurations that are always run
    for v in range(6):
        for p in (-1, 0, 1, 6):
            add(v, p, 0, 0, 0, rng.randrange(32), rng.choice(C07_WIDTHS))        # zeros
        for (L, z) in ((1, 0), (2, 0), (3, 2)):
            for adj in (-2, -1, 0, 1):
                for p in (0, 1, 2):
                    add(v, p, L, z, adj, 0, 0)                                   # ties with few digits
    for v in (4, 5):
        for P in range(1, 8):
            for adj in (P - 1, P, -5, -4):
                for (L, z) in rng.sample([q for q in pairs if q[0] - q[1] > P], 2):
                    add(v, P, L, z, adj, rng.choice([0, 4]), 0)                  # g switch-over around a carry
    for fl in range(32):
        for w in (7, 30):
            add(rng.randrange(6), rng.choice([-1, 2, 5]), 3, 0, rng.choice([-3, 0, 2, 9]), fl, w)   # every flag set
    n = 1000 if tier == 'quick' else 40000
    tries = 0
    while len(jobs) < n and tries < n * 5:
        tries += 1
        L, z = rng.choice(pairs)
        P = rng.choice(C07_PRECS + [max(0, L - z - 1), L - z, L - z + 1])
        add(rng.randrange(6), P, L, z, rng.choice(C07_ADJ), rng.randrange(32), rng.choice(C07_WIDTHS))
    return jobs


PROPS['C07'] = {
    'jobs': c07_jobs,
    'must_reach': ['C07:layout', 'C07:e', 'C07:f', 'C07:g', 'C07:zero', 'digits:lemma'],
    'bounds': {'quick': 'Decimal.Format (stub fmt.State), Decimal.Append(spec) and package-level Append for verbs e,E,f,F,g,G: 1000 configurations = boundary ones (zeros, ties with one to three digits, the g switch-over around a rounding carry for precisions 1..7, every one of the 32 flag sets) plus a seeded sample of verb x precision {absent,0..7,15,33,34,35,40, n-1,n,n+1} x 32 coefficient classes (digit count L, trailing zeros z; of 630) x leading-digit exponent {-8..9,20,21,+-99,+-100,999,+-1000,+-6100} (f/F: -8..21) x 32 flag sets x width {0,1,7,15,30,45}; inside a configuration the coefficient and the sign are symbolic. Oracle: exact value rounded half-to-even over mathematical integers, read back from the produced bytes by an independent numeral reader; fraction-digit counts, g form rule, # and sign flags; padding against an independent model of the fmt rules; Append(spec) == Format(State); package Append == Format without flags.',
               'thorough': '40000 seeded configurations over all 630 coefficient classes.'},
    'outside': "the real fmt package is not executed: a stub fmt.State hands Decimal.Format every combination of flags, including '-' together with '0' as fmt of go1.23+ reports them; Sprintf's own verb parsing is replaced by that stub; widths above 45, precisions above 40; f/F for exponents outside -8..21 (output length grows with the exponent); invalid verbs / malformed spec strings",
    'assumptions': ['assume-guarantee: Decimal.digits is replaced by its contract (vh_lemma_Decimal_digits proves real body == contract per (L,z) class on every run)',
                    'the layout rules are those package fmt documents for floating-point verbs (the harness oracle was compared natively against fmt.Sprintf on float64 during development)'],
    'validate_per_harness': 12,
    'job_budget': {'quick': 300, 'thorough': 600},
}
