"""Per-property job lists (harness, args[, opts]) and evidence metadata."""


def c12_jobs(tier, seed):
    jobs = [('vh_c12_marshal', [])]
    for n in range(0, 65):
        jobs.append(('vh_c12_unmarshal', [n]))
    return jobs


PROPS = {
    'C12': {
        'jobs': c12_jobs,
        'must_reach': ['finite', 'roundtrip'],
        'bounds': {'all': 'all 2^128 bit patterns (two symbolic 64-bit words) for Marshal/decode/round trip; every byte-slice length 0..64 with all bytes symbolic for Unmarshal'},
        'outside': 'slices longer than 64 bytes',
        'assumptions': ['errors.New is an opaque non-nil error value'],
    },
}
