package decimal128

// C18 (shortcut / special-case ladder of Pow only).  The general path (log -> mul -> exp -> rcp) is cut:
// a path that reaches decomposed192.log ends there and nothing is claimed about it.
//
// Operand classes for x:  0 NaN, 1 +Inf, 2 -Inf, 3 +0, 4 -0, 5 +1 (any cohort member), 6 -1,
//   7 finite > 1, 8 finite < -1, 9 in (0,1), 10 in (-1,0)   (7..10: coefficient without trailing zeros)
// and for y:  0 NaN, 1 +Inf, 2 -Inf, 3 +0, 4 -0, 5 +1, 6 -1, 7 odd integer > 1, 8 odd integer < -1,
//   9 even integer >= 2, 10 even integer <= -2, 11 positive non-integer, 12 negative non-integer
// Integers / non-integers are taken with exponent 0 / -1 resp. (other encodings: see C19 and the loops
// that strip trailing zeros, which are executed for every cohort member of +-1 and of the zeros).

func ndPowX(class int) Decimal {
	if class <= 4 {
		return ndOperand("x", class)
	}
	d := ndDecimal("x")
	assume(!d.isSpecial())
	sig, exp := d.decompose()
	N := z128(sig)
	neg := d.hi>>63 == 1
	switch class {
	case 5, 6:
		k := nondetInt("k")
		assume(k >= 0 && k <= 34)
		kk := concretize(k)
		assume(int(exp) == exponentBias-kk && N.Eq(zpow10(kk)))
		assume(neg == (class == 6))
	case 7, 8:
		assume(exp >= exponentBias && N.Ge(zi(2)) && N.Le(zMAX()) && !N.Mod(zi(10)).IsZero())
		assume(neg == (class == 8))
	default:
		assume(exp < exponentBias-35 && !N.IsZero() && N.Le(zMAX()) && !N.Mod(zi(10)).IsZero())
		assume(neg == (class == 10))
	}
	return d
}

func ndPowY(class int) Decimal {
	if class <= 4 {
		return ndOperand("y", class)
	}
	d := ndDecimal("y")
	assume(!d.isSpecial())
	sig, exp := d.decompose()
	N := z128(sig)
	neg := d.hi>>63 == 1
	switch class {
	case 5, 6:
		k := nondetInt("ky")
		assume(k >= 0 && k <= 34)
		kk := concretize(k)
		assume(int(exp) == exponentBias-kk && N.Eq(zpow10(kk)))
		assume(neg == (class == 6))
	case 7, 8:
		assume(exp == exponentBias && N.Ge(zi(3)) && N.Le(zMAX()) && N.Mod(zi(2)).Eq(zi(1)))
		assume(neg == (class == 8))
	case 9, 10:
		assume(exp == exponentBias && N.Ge(zi(2)) && N.Le(zMAX()) && N.Mod(zi(2)).IsZero())
		assume(neg == (class == 10))
	default:
		assume(exp == exponentBias-1 && N.Le(zMAX()) && !N.Mod(zi(10)).IsZero())
		assume(neg == (class == 12))
	}
	return d
}

// vh_c18_table: want / wantv come from math.Pow on class representatives (run natively at check time);
// want == 6 means "finite, decided by the general path": nothing is checked then.
func vh_c18_table(cx, cy, want, wantv int) {
	x, y := ndPowX(cx), ndPowY(cy)
	mode := ndMode("mode")
	res := x.PowWithMode(y, mode)
	observeDec("res", res)
	if cy == 3 || cy == 4 {
		checkValue(res, false, false, zi(1), 0, "C18: Pow(x, +-0) must be exactly 1")
		reach("C18:y0")
		return
	}
	if cx == 5 {
		checkValue(res, false, false, zi(1), 0, "C18: Pow(1, y) must be exactly 1")
		reach("C18:x1")
		return
	}
	if cy == 5 {
		check(res == x, "C18: Pow(x, 1) must be x itself")
		reach("C18:y1")
		return
	}
	if cy == 6 {
		check(res == one(false).QuoWithMode(x, mode), "C18: Pow(x, -1) must be the mode-rounded reciprocal")
		reach("C18:ym1")
		return
	}
	if cx == 0 {
		check(res == x, "C18: a NaN base must be propagated")
		reach("C18:nan")
		return
	}
	if cy == 0 {
		check(res == y, "C18: a NaN exponent must be propagated")
		reach("C18:nan")
		return
	}
	if want == 6 {
		return
	}
	if cutCount() == 1 && want == 5 && wantv != 99 {
		// the shortcut hands the exact value to the rounding kernel: it must denote wantv, and the result is the
		// kernel's magnitude with the sign of wantv
		a := wantv
		if a < 0 {
			a = -a
		}
		j := concretize(exponentBias - int(cutExp(0)))
		check(j >= 0 && j <= 34 && cutT(0) == 0 && cutN(0).Eq(zi(int64(a)).Mul(zpow10(j))), "C18: shortcut does not hand the exact value to the rounding kernel")
		pk := packCut(0)
		check(res.lo == pk.lo && res.hi&0x7fff_ffff_ffff_ffff == pk.hi&0x7fff_ffff_ffff_ffff && res.Signbit() == (wantv < 0), "C18: shortcut does not return the kernel result with the right sign")
		reach("C18:table")
		return
	}
	c15CheckClass(res, want, wantv, "C18: Pow")
	if want == 0 {
		p := res.Payload()
		check(p&0xff == payloadOpPow, "C18: a NaN created by Pow must carry the Pow payload")
		reach("C18:invalid")
	}
	reach("C18:table")
}

// vh_c18_pow10: x = 10^a (any cohort member of a power of ten), y a non-negative integer written with p
// trailing zeros stripped to exponent p (y = n x 10^p, p in 0..7): the result is exactly 10^(a*y), or
// Inf / zero beyond the range.
func vh_c18_pow10(p int) {
	x := ndDecimal("x")
	assume(!x.isSpecial() && x.hi>>63 == 0)
	xs, xe := x.decompose()
	k := nondetInt("k")
	assume(k >= 0 && k <= 34)
	kk := concretize(k)
	assume(z128(xs).Eq(zpow10(kk)))
	a := int(xe) - exponentBias + kk // x = 10^a
	y := ndDecimal("y")
	assume(!y.isSpecial() && y.hi>>63 == 0)
	ys, ye := y.decompose()
	n := z128(ys)
	assume(int(ye) == exponentBias+p && !n.IsZero() && !n.Mod(zi(10)).IsZero() && n.Le(zi(1000000)))
	mode := ndMode("mode")
	res := x.PowWithMode(y, mode)
	observeDec("res", res)
	if a == 0 {
		checkValue(res, false, false, zi(1), 0, "C18: Pow(1, y)")
		return
	}
	if p == 0 && n.Eq(zi(1)) {
		check(res == x, "C18: Pow(x, 1) must be x itself")
		return
	}
	// exponent of the result: a * n * 10^p
	r := zi(int64(a)).Mul(n).Mul(zpow10(p))
	if cutCount() == 1 {
		// exact value 10^r handed to the rounding kernel (which decides range, subnormals and flush)
		j := concretize(r.Int() - (int(cutExp(0)) - exponentBias))
		check(j >= 0 && j <= 34 && cutT(0) == 0 && !cutNeg(0) && cutN(0).Eq(zpow10(j)) && cutMode(0) == mode, "C18: Pow(10^a, n) does not hand 10^(a*n) to the rounding kernel")
		check(res == packCut(0), "C18: Pow(10^a, n) does not return the kernel result")
		reach("C18:p10")
		return
	}
	if !verifSymbolic() {
		isInf, c, e := refRound(false, zi(1), r.Int(), 0, mode)
		checkValue(res, false, isInf, c, e, "C18: Pow(10^a, n)")
		return
	}
	if r.Gt(zi(6145)) {
		check(res == inf(false), "C18: a power of ten above the range must be +Inf")
		reach("C18:p10inf")
		return
	}
	if r.Lt(zi(-6177)) {
		check(res.IsZero() && !res.isSpecial() && !res.Signbit(), "C18: a power of ten below the range must be +0")
		reach("C18:p10zero")
		return
	}
	check(false, "C18: a representable power of ten was decided without the rounding kernel")
}
