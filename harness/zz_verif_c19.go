package decimal128

// C19: Canonical is a normal form (same value and sign, exponent closest to zero that still holds all
// digits, NaN payload / Inf garbage stripped).  The unique-member characterisation below implies
// idempotence and "identical bits exactly when Equal" (compose is a function of sign, coefficient, exponent).
// Encoding independence of the other operations is discharged by the value-level oracles of
// C01/C04/C08/C11 (every harness quantifies over all cohort members of each operand).

func vh_c19_canonical(class int) {
	d := ndClass("d", class)
	c := d.Canonical()
	observeDec("c", c)
	switch class {
	case 3:
		check(c == nan(0, 0, 0), "C19: Canonical(NaN) must be the NaN without payload or sign")
		reach("C19:nan")
		return
	case 1, 2:
		check(c == inf(class == 2), "C19: Canonical(Inf) must be the infinity without garbage bits")
		reach("C19:inf")
		return
	}
	ds, dexp := d.decompose()
	D := z128(ds)
	if D.IsZero() {
		check(c == zero(d.Signbit()), "C19: Canonical(0) must be the zero with only the sign bit")
		reach("C19:zero")
		return
	}
	check(!c.isSpecial() && c.Signbit() == d.Signbit(), "C19: Canonical changed the class or sign")
	cs, cexp := c.decompose()
	C := z128(cs)
	check(C.Le(zMAX()) && cexp >= 0 && cexp <= maxBiasedExponent, "C19: Canonical result outside the format")
	k := concretize(int(dexp) - int(cexp))
	if k >= 0 {
		check(k <= 40 && C.Eq(D.Mul(zpow10(k))), "C19: Canonical changed the value")
	} else {
		check(k >= -40 && C.Mul(zpow10(-k)).Eq(D), "C19: Canonical changed the value")
	}
	// exponent closest to zero (biased 6176) that still holds all digits
	if cexp > exponentBias {
		check(C.Mul(zi(10)).Gt(zMAX()), "C19: exponent could be moved closer to zero by scaling the coefficient up")
	} else if cexp < exponentBias {
		check(!C.Mod(zi(10)).IsZero(), "C19: exponent could be moved closer to zero by stripping a trailing zero")
	}
	reach("C19:finite")
	// idempotence, directly
	check(c.Canonical() == c, "C19: Canonical is not idempotent")
}
