package decimal128

// C11: New, Ldexp, Frexp scale by powers of ten without losing value.
// The rounding kernel is cut: the harness proves the kernel receives exactly sig x 10^exp
// (resp. frac x 10^exp) whenever the result is not decided by an early exit, and that the early
// exits (zero / infinity) are taken only where the correctly rounded result is zero / infinite.

// region: 0: exp < -6195 (magnitude below 1e-6177 for every int64), 1: -6195..6150, 2: exp > 6150
func vh_c11_new(region int) {
	sig := nondetI64("sig")
	exp := nondetInt("exp")
	DefaultRoundingMode = ndMode("drm")
	switch region {
	case 0:
		assume(exp < -6195)
	case 1:
		assume(exp >= -6195 && exp <= 6150)
	default:
		assume(exp > 6150)
	}
	res := New(sig, exp)
	observeDec("res", res)
	if !verifSymbolic() {
		if sig == 0 {
			check(res.IsZero() && !res.isSpecial() && !res.Signbit(), "C11: New(0, e) must be +0")
			return
		}
		neg := sig < 0
		a := zi(sig).Abs()
		if exp < -7000 {
			check(res.IsZero() && !res.isSpecial() && res.Signbit() == neg, "C11: New far below the range must be a signed zero")
			return
		}
		if exp > 7000 {
			check(res.isInf() && !res.IsNaN() && res.Signbit() == neg, "C11: New far above the range must be an infinity")
			return
		}
		isInf, c, e := refRound(neg, a, exp, 0, DefaultRoundingMode)
		checkValue(res, neg, isInf, c, e, "C11: New")
		return
	}
	if sig == 0 {
		check(res.IsZero() && !res.isSpecial() && !res.Signbit(), "C11: New(0, e) must be +0")
		reach("C11:new0")
		return
	}
	neg := sig < 0
	a := zi(sig).Abs()
	switch region {
	case 0:
		check(cutCount() == 0 && res.IsZero() && !res.isSpecial() && res.Signbit() == neg, "C11: New below 1e-6177 must be a signed zero")
		reach("C11:newzero")
	case 2:
		check(cutCount() == 0 && res.isInf() && !res.IsNaN() && res.Signbit() == neg, "C11: New above the range must be an infinity")
		reach("C11:newinf")
	default:
		if cutCount() == 0 && res.IsZero() && !res.isSpecial() {
			k := concretize(-1 - (exp + exponentBias))
			check(res.Signbit() == neg && k >= 1 && k <= 300 && a.Lt(zpow10(k)), "C11: New early zero exit taken for a value that is not below 1e-6177")
			reach("C11:newearly")
			return
		}
		check(cutCount() == 1, "C11: New must round sig x 10^exp (early exit taken although the value may be representable)")
		if cutCount() != 1 {
			return
		}
		check(cutN(0).Eq(a) && int(cutExp(0)) == exp+exponentBias && cutT(0) == 0 && cutNeg(0) == neg && cutMode(0) == DefaultRoundingMode,
			"C11: New does not hand sig x 10^exp to the rounding kernel")
		check(res == packCut(0), "C11: New does not return the packed kernel result")
		reach("C11:new")
	}
}

// region: 0: total exponent far below, 1: in reach of the kernel, 2: far above
func vh_c11_ldexp(region int) {
	frac := ndDecimal("f")
	exp := nondetInt("exp")
	DefaultRoundingMode = ndMode("drm")
	res := Ldexp(frac, exp)
	observeDec("res", res)
	if frac.isSpecial() || frac.IsZero() {
		check(res == frac, "C11: Ldexp must return zeros, NaN and Inf unchanged")
		reach("C11:ldexpspecial")
		return
	}
	fs, fe := frac.decompose()
	F := z128(fs)
	neg := frac.Signbit()
	// total biased exponent as a mathematical integer
	tot := zi(int64(fe)).Add(zi(int64(exp)))
	switch region {
	case 0:
		assume(tot.Lt(zi(-36)))
	case 1:
		assume(tot.Ge(zi(-36)) && tot.Le(zi(maxBiasedExponent+39)))
	default:
		assume(tot.Gt(zi(maxBiasedExponent + 39)))
	}
	if !verifSymbolic() {
		if tot.Lt(zi(-7000)) {
			check(res.IsZero() && !res.isSpecial() && res.Signbit() == neg, "C11: Ldexp far below the range must be a signed zero")
			return
		}
		if tot.Gt(zi(20000)) {
			check(res.isInf() && !res.IsNaN() && res.Signbit() == neg, "C11: Ldexp far above the range must be an infinity")
			return
		}
		isInf, c, e := refRound(neg, F, tot.Int()-exponentBias, 0, DefaultRoundingMode)
		checkValue(res, neg, isInf, c, e, "C11: Ldexp")
		return
	}
	switch region {
	case 0:
		// F < 10^35, so F x 10^(tot-6176) < 10^-6177
		check(res.IsZero() && !res.isSpecial() && res.Signbit() == neg, "C11: Ldexp below 1e-6177 must be a signed zero")
		reach("C11:ldexpzero")
	case 2:
		check(res.isInf() && !res.IsNaN() && res.Signbit() == neg, "C11: Ldexp above the range must be an infinity")
		reach("C11:ldexpinf")
	default:
		if cutCount() == 0 && res.IsZero() && !res.isSpecial() {
			// an early zero exit is right only below the flush threshold: F x 10^(tot-6176) < 10^-6177  <=>  F < 10^(-1-tot)
			k := concretize(-1 - tot.Int())
			check(res.Signbit() == neg && k >= 1 && k <= 300 && F.Lt(zpow10(k)), "C11: Ldexp early zero exit taken for a value that is not below 1e-6177")
			reach("C11:ldexpearly")
			return
		}
		check(cutCount() == 1, "C11: Ldexp must round frac x 10^exp (early exit taken although the value may be representable)")
		if cutCount() != 1 {
			return
		}
		check(cutN(0).Eq(F) && zi(int64(cutExp(0))).Eq(tot) && cutT(0) == 0 && cutNeg(0) == neg && cutMode(0) == DefaultRoundingMode,
			"C11: Ldexp does not hand frac x 10^exp to the rounding kernel")
		check(res == packCut(0), "C11: Ldexp does not return the packed kernel result")
		reach("C11:ldexp")
	}
}

func vh_c11_frexp() {
	d := ndDecimal("d")
	frac, e := Frexp(d)
	observeDec("frac", frac)
	observe("e", uint64(e))
	if d.isSpecial() || d.IsZero() {
		check(frac == d && e == 0, "C11: Frexp must return zeros, NaN and Inf unchanged with e = 0")
		reach("C11:frexpspecial")
		return
	}
	ds, dexp := d.decompose()
	D := z128(ds)
	check(!frac.isSpecial() && frac.Signbit() == d.Signbit(), "C11: Frexp changed the class or sign")
	fs, fexp := frac.decompose()
	F := z128(fs)
	// frac x 10^e == d exactly:  F x 10^(fexp + e) == D x 10^dexp
	k := concretize(int(fexp) + e - int(dexp))
	if k >= 0 {
		check(F.Mul(zpow10(k)).Eq(D), "C11: frac x 10^e differs from d")
	} else {
		check(F.Eq(D.Mul(zpow10(-k))), "C11: frac x 10^e differs from d")
	}
	// 0.1 <= |frac| < 1:  10^(m-1) <= F < 10^m with m = 6176 - fexp
	m := concretize(exponentBias - int(fexp))
	check(m >= 1 && m <= 36, "C11: fraction exponent out of range")
	if m >= 1 && m <= 36 {
		check(F.Ge(zpow10(m-1)) && F.Lt(zpow10(m)), "C11: |frac| is not in [0.1, 1)")
	}
	reach("C11:frexp")
}
