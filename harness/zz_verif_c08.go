package decimal128

// C08: Round / Ceil / Floor / Trunc quantise exactly as specified.
//
// fn: 0 = Round(dp, mode) with symbolic mode, 1 = Ceil(dp), 2 = Floor(dp).
// k:  number of digits dropped, dp' - exp where dp' = 6176 - dp (biased exponent of the quantum):
//     k == 0: dp' <= exp (d is already a multiple), 1..35 concrete, 36: dp' >= exp+36 (symbolic).
// ov: 0: dp' <= 12287 (symbolic), 1..35: dp' = 12287+ov (quantum above the largest exponent), 36: dp' >= 12287+36.
// dp itself ranges over all of int (so the 64-bit wrap of dp*-1+6176 is inside the query).

func c08Call(fn int, d Decimal, dp int, mode RoundingMode) Decimal {
	switch fn {
	case 0:
		return d.Round(dp, mode)
	case 1:
		return d.Ceil(dp)
	}
	return d.Floor(dp)
}

func vh_c08(fn, k, ov int) {
	d := ndFinite("d")
	mode := ndMode("mode")
	dp := nondetInt("dp")
	sig, exp := d.decompose()
	N := z128(sig)
	iexp := int(exp)
	dpq := zi(exponentBias).Sub(zi(int64(dp))) // dp' as a mathematical integer
	switch {
	case k == 0:
		assume(dpq.Le(zi(int64(iexp))))
	case k <= 35:
		assume(dpq.Eq(zi(int64(iexp + k))))
		assume(dp >= -7000 && dp <= 7000) // implied by the line above (exp is 0..12287); helps the interval analysis
	default:
		assume(dpq.Ge(zi(int64(iexp + 36))))
	}
	switch {
	case ov == 0:
		assume(dpq.Le(zi(maxBiasedExponent)))
	case ov <= 35:
		assume(dpq.Eq(zi(int64(maxBiasedExponent + ov))))
	default:
		assume(dpq.Ge(zi(maxBiasedExponent + 36)))
	}
	res := c08Call(fn, d, dp, mode)
	observeDec("res", res)
	neg := d.Signbit()
	if N.IsZero() {
		check(res.IsZero() && !res.isSpecial() && res.Signbit() == neg, "C08: rounding a zero must give a zero of the same sign")
		reach("C08:zero")
		return
	}
	if k == 0 {
		checkValue(res, neg, false, N, iexp-exponentBias, "C08: a value that is already a multiple of the quantum must be unchanged")
		reach("C08:unchanged")
		return
	}
	// kept coefficient and remainder at the quantum
	var q0 Z
	var rnz bool // remainder non-zero
	var tiny bool // |d| below one tenth of the quantum
	var delta int
	if k <= 35 {
		D := zpow10(k)
		q0 = N.Div(D)
		r := N.Mod(D)
		rnz = !r.IsZero()
		tiny = N.Lt(zpow10(k - 1))
		delta = specDelta(r.Mul(zi(4)), D.Mul(zi(2)), q0, neg, mode)
	} else {
		q0, rnz, tiny, delta = zi(0), true, true, 0
	}
	var C Z
	switch fn {
	case 0:
		if tiny {
			C = zi(0)
		} else {
			C = q0.Add(zi(int64(delta)))
		}
	case 1:
		C = q0
		if rnz && !neg {
			C = q0.Add(zi(1))
		}
	default:
		C = q0
		if rnz && neg {
			C = q0.Add(zi(1))
		}
	}
	if C.IsZero() {
		check(res.IsZero() && !res.isSpecial() && res.Signbit() == neg, "C08: result must be a zero of d's sign")
		reach("C08:tozero")
		return
	}
	// value C * 10^(dp'-6176)
	if ov == 0 {
		e := iexp + k
		if k > 35 {
			// C == 1 and dp' symbolic: compare exponents directly
			check(!res.isSpecial() && res.Signbit() == neg, "C08: one quantum expected")
			rs, rexp := res.decompose()
			check(z128(rs).Eq(zi(1)) && dpq.Eq(zi(int64(rexp))), "C08: Ceil/Floor of a tiny value must be exactly one quantum")
			reach("C08:onequantum")
			return
		}
		checkValue(res, neg, false, C, e-exponentBias, "C08")
		reach("C08:rounded")
		return
	}
	if ov > 35 {
		check(res.isInf() && !res.IsNaN() && res.Signbit() == neg, "C08: a quantum beyond the format must give an infinity")
		reach("C08:inf")
		return
	}
	// quantum exponent 12287+ov: representable iff C*10^ov <= MAX
	if C.Mul(zpow10(ov)).Gt(zMAX()) {
		check(res.isInf() && !res.IsNaN() && res.Signbit() == neg, "C08: result beyond the largest finite Decimal must be an infinity")
		reach("C08:inf")
		return
	}
	checkValue(res, neg, false, C.Mul(zpow10(ov)), emax, "C08: representable multiple of a large quantum")
	reach("C08:largequantum")
}

func vh_c08_special(class int) {
	d := ndClass("d", class)
	dp := nondetInt("dp")
	mode := ndMode("mode")
	check(d.Round(dp, mode) == d && d.Ceil(dp) == d && d.Floor(dp) == d, "C08: NaN/Inf must pass through unchanged")
	reach("C08:special")
}

func vh_c08_pkg() {
	d := ndDecimal("d")
	check(Round(d) == d.Round(0, ToNearestAway), "C08: Round(d) != d.Round(0, ToNearestAway)")
	check(Trunc(d) == d.Round(0, ToZero), "C08: Trunc(d) != d.Round(0, ToZero)")
	check(Ceil(d) == d.Ceil(0), "C08: Ceil(d) != d.Ceil(0)")
	check(Floor(d) == d.Floor(0), "C08: Floor(d) != d.Floor(0)")
	reach("C08:pkg")
}
