package decimal128

// C01: addition and subtraction are correctly rounded in all six modes.
//
// Symbolic run: the exponent gap is a concrete parameter (so 10^gap is a literal); both
// coefficients, signs, the smaller exponent, the mode are symbolic.  The call to the rounding
// kernel is cut (engine/cuts.py): the harness proves that the kernel is handed exactly the
// infinitely precise sum (sticky convention), that P holds, and that the returned Decimal is the
// packing of the kernel's result.  Correct rounding then follows from the R-contract (vh_reduce_*).
// Native run (replay): an exact big-integer reference decides the concrete case end to end.

func c01Call(d, o Decimal, mode RoundingMode, subtract bool) Decimal {
	if subtract {
		return d.SubWithMode(o, mode)
	}
	return d.AddWithMode(o, mode)
}

func c01ZeroRules(d, o, res Decimal, dSig, oSig Z, oNegEff bool, mode RoundingMode) {
	// exact zero results and single-zero operands
	if dSig.IsZero() && oSig.IsZero() {
		check(res.IsZero() && !res.isSpecial(), "C01: sum of two zeros is not zero")
		check(res.Signbit() == (d.Signbit() && oNegEff), "C01: two zero operands must give -0 only when both effective signs are negative")
		reach("C01:zero+zero")
		return
	}
	if dSig.IsZero() {
		_, c, e := decValParts(o)
		checkValue(res, oNegEff, false, c, e, "C01: 0 + y must be y")
		reach("C01:zero+y")
		return
	}
	if oSig.IsZero() {
		_, c, e := decValParts(d)
		checkValue(res, d.Signbit(), false, c, e, "C01: x + 0 must be x")
		reach("C01:x+zero")
		return
	}
	// exact cancellation of non-zero operands
	check(res.IsZero() && !res.isSpecial(), "C01: exact cancellation does not give zero")
	check(res.Signbit() == (mode == ToNegativeInf), "C01: exact cancellation must give +0 (-0 only under ToNegativeInf)")
	reach("C01:cancel")
}

func decValParts(d Decimal) (neg bool, c Z, e int) {
	sig, exp := d.decompose()
	return d.Signbit(), z128(sig), int(exp) - exponentBias
}

// vh_c01_gap: exponent gap (d's exponent minus o's) is exactly `gap`.
func vh_c01_gap(gap int, sub int) {
	subtract := sub != 0
	d, o := ndFinite("d"), ndFinite("o")
	mode := ndMode("mode")
	ds, dExp := d.decompose()
	os, oExp := o.decompose()
	assume(int(dExp)-int(oExp) == gap)
	dSig, oSig := z128(ds), z128(os)
	res := c01Call(d, o, mode, subtract)
	observeDec("res", res)
	oNegEff := o.Signbit() != subtract
	// exact sum in units of 10^unit (biased exponent)
	var S Z
	var unit int
	if gap >= 0 {
		S = zsigned(d.Signbit(), dSig.Mul(zpow10(gap))).Add(zsigned(oNegEff, oSig))
		unit = int(oExp)
	} else {
		S = zsigned(d.Signbit(), dSig).Add(zsigned(oNegEff, oSig.Mul(zpow10(-gap))))
		unit = int(dExp)
	}
	if !verifSymbolic() {
		c01Native(d, o, res, mode, oNegEff, S, unit)
		return
	}
	n := cutCount()
	if n == 0 {
		if S.IsZero() || dSig.IsZero() || oSig.IsZero() {
			c01ZeroRules(d, o, res, dSig, oSig, oNegEff, mode)
			return
		}
		check(false, "C01: non-zero inexact-capable sum returned without rounding")
		return
	}
	check(n == 1, "C01: more than one rounding per operation")
	N, e, t, neg := cutN(0), cutExp(0), cutT(0), cutNeg(0)
	check(cutMode(0) == mode, "C01: rounding kernel called with a different mode")
	delta := concretize(int(e) - unit)
	checkDenotes(S, N, t, neg, delta, "C01")
	check(res == packCut(0), "C01: returned Decimal is not the packed result of the rounding kernel")
	reach("C01:rounded")
}

func c01Native(d, o, res Decimal, mode RoundingMode, oNegEff bool, S Z, unit int) {
	dSig, oSig := func() (Z, Z) { a, _ := d.decompose(); b, _ := o.decompose(); return z128(a), z128(b) }()
	if S.IsZero() || dSig.IsZero() || oSig.IsZero() {
		c01ZeroRules(d, o, res, dSig, oSig, oNegEff, mode)
		return
	}
	neg := S.Lt(zi(0))
	isInf, c, e := refRound(neg, S.Abs(), unit-exponentBias, 0, mode)
	checkValue(res, neg, isInf, c, e, "C01")
}

// vh_c01_far: |gap| >= 75: the operand with the smaller exponent is below every digit of the other
// one even after maximal scaling, i.e. pure sticky.  side > 0: d has the larger exponent.
func vh_c01_far(side int, sub int) {
	subtract := sub != 0
	d, o := ndFinite("d"), ndFinite("o")
	mode := ndMode("mode")
	ds, dExp := d.decompose()
	os, oExp := o.decompose()
	if side > 0 {
		assume(int(dExp)-int(oExp) >= 75)
	} else {
		assume(int(oExp)-int(dExp) >= 75)
	}
	dSig, oSig := z128(ds), z128(os)
	res := c01Call(d, o, mode, subtract)
	observeDec("res", res)
	oNegEff := o.Signbit() != subtract
	if !verifSymbolic() {
		// native: exact sum with the real gap
		gap := int(dExp) - int(oExp)
		var S Z
		var unit int
		if gap >= 0 {
			S = zsigned(d.Signbit(), dSig.Mul(zpow10(gap))).Add(zsigned(oNegEff, oSig))
			unit = int(oExp)
		} else {
			S = zsigned(d.Signbit(), dSig).Add(zsigned(oNegEff, oSig.Mul(zpow10(-gap))))
			unit = int(dExp)
		}
		c01Native(d, o, res, mode, oNegEff, S, unit)
		return
	}
	n := cutCount()
	if n == 0 {
		check(dSig.IsZero() || oSig.IsZero(), "C01: distant operands returned without rounding")
		c01ZeroRules(d, o, res, dSig, oSig, oNegEff, mode)
		return
	}
	check(n == 1, "C01: more than one rounding per operation")
	N, e, t, neg := cutN(0), cutExp(0), cutT(0), cutNeg(0)
	check(cutMode(0) == mode, "C01: rounding kernel called with a different mode")
	// big = operand with the larger exponent, small = the other one (0 < small < one unit of N)
	big, bigExp, bigNeg, smallNeg := dSig, int(dExp), d.Signbit(), oNegEff
	if side < 0 {
		big, bigExp, bigNeg, smallNeg = oSig, int(oExp), oNegEff, d.Signbit()
	}
	a := concretize(bigExp - int(e))
	check(a >= 0 && a <= 40, "C01: larger operand scaled by an unexpected power of ten")
	check(N.Eq(big.Mul(zpow10(a))), "C01: larger operand is not carried exactly into the rounding kernel")
	check(neg == bigNeg, "C01: sign of a sum with a negligible operand must be the larger operand's sign")
	want := int8(1)
	if smallNeg != bigNeg {
		want = -1
	}
	check(t == want, "C01: negligible operand must turn into a sticky flag of its sign")
	check(res == packCut(0), "C01: returned Decimal is not the packed result of the rounding kernel")
	reach("C01:far")
}

// vh_c01_default: Add/Sub equal the WithMode forms under every DefaultRoundingMode (incl. special operands).
func vh_c01_default(gap int) {
	d, o := ndDecimal("d"), ndDecimal("o")
	_, dExp := d.decompose()
	_, oExp := o.decompose()
	if gap < 100 {
		assume(int(dExp)-int(oExp) == gap)
	}
	DefaultRoundingMode = RoundingMode(nondetU8("drm"))
	assume(DefaultRoundingMode <= ToPositiveInf)
	check(d.Add(o) == d.AddWithMode(o, DefaultRoundingMode), "C01: Add differs from AddWithMode(DefaultRoundingMode)")
	check(d.Sub(o) == d.SubWithMode(o, DefaultRoundingMode), "C01: Sub differs from SubWithMode(DefaultRoundingMode)")
	reach("C01:default")
}
