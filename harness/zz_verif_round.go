package decimal128

// R-contract: the shared rounding kernel reduce64/128/192/256 + round (DESIGN.md §2).
//
// Input (N, exp, t, neg, mode) denotes V = (-1)^neg * (N + t*eps) * 10^(exp-6176), eps an
// infinitesimal.  The kernel must return the member of the format selected by mode for V, with an
// unbounded exponent range first and then: exponent result > 12287 (callers turn that into Inf)
// exactly when that member exceeds the largest finite Decimal; zero when |V| < 10^-6177.
//
// Precondition P (asserted at every call site by the caller harnesses):
//   t != 0  =>  N > MAX          (sticky bits only after digits beyond the format were dropped)
//   t == -1 =>  exp >= 0
//   -25000 <= exp <= 25000

const (
	qmax = maxBiasedExponent
)

func zMAX() Z    { return zpow2(111).Mul(zi(5)).Sub(zi(1)) } // 5*2^111-1
func zMAX1() Z   { return zpow2(111).Mul(zi(5)) }            // MAX+1 = 10*2^110
func z2p110() Z  { return zpow2(110) }
func modeOK(m RoundingMode) bool { return m <= ToPositiveInf }

// specDelta: which neighbour the mode selects.  X = 4*r + t (r = dropped digits, t sticky),
// H = 2*10^k (half), q0 = kept coefficient.  Returns -1 (q0-1), 0 (q0) or +1 (q0+1).
func specDelta(X, H, q0 Z, neg bool, mode RoundingMode) int {
	zero := zi(0)
	if X.Eq(zero) {
		return 0
	}
	below := X.Lt(zero) // V is infinitesimally below q0
	switch mode {
	case ToNearestEven:
		if below {
			return 0
		}
		if X.Gt(H) || (X.Eq(H) && q0.Mod(zi(2)).Eq(zi(1))) {
			return 1
		}
		return 0
	case ToNearestAway:
		if below {
			return 0
		}
		if X.Ge(H) {
			return 1
		}
		return 0
	case ToZero:
		if below {
			return -1
		}
		return 0
	case AwayFromZero:
		if below {
			return 0
		}
		return 1
	case ToNegativeInf:
		if neg {
			if below {
				return 0
			}
			return 1
		}
		if below {
			return -1
		}
		return 0
	default: // ToPositiveInf
		if neg {
			if below {
				return -1
			}
			return 0
		}
		if below {
			return 0
		}
		return 1
	}
}

// checkRounded asserts that (rs, rexp) is the correctly rounded result for N, dropping k digits,
// with e = exp+k the exponent of the kept coefficient.  tag is the caller's message prefix.
func checkRounded(N Z, e int, k int, t int8, neg bool, mode RoundingMode, rs uint128, rexp int16) {
	D := zpow10(k)
	q0 := N.Div(D)
	r := N.Mod(D)
	X := r.Mul(zi(4)).Add(zi(int64(t)))
	H := D.Mul(zi(2))
	delta := specDelta(X, H, q0, neg, mode)
	C := q0.Add(zi(int64(delta)))
	R := z128(rs)
	if delta == -1 && q0.Eq(z2p110()) && e >= 1 {
		// just below a power-of-ten boundary of the format: the neighbour below is MAX at exponent e-1
		if e-1 > qmax {
			check(rexp > qmax, "R: rounded result exceeds the largest finite Decimal but no overflow is signalled")
			return
		}
		check(int(rexp) == e-1 && R.Eq(zMAX()), "R: result is not the member the mode selects (below 2^110 boundary)")
		reach("R:boundary-below")
		return
	}
	if e > qmax || (e == qmax && C.Eq(zMAX1())) {
		// e > qmax only happens in the overflow configurations (handled by the caller of checkRounded)
		check(rexp > qmax, "R: rounded result exceeds the largest finite Decimal but no overflow is signalled")
		reach("R:overflow")
		return
	}
	check(rexp >= 0 && rexp <= qmax, "R: result exponent outside the format although the rounded value is finite")
	check(R.Le(zMAX()), "R: result coefficient exceeds 5*2^111-1")
	d := concretize(int(rexp) - e)
	if d >= 0 {
		check(d <= 40 && R.Mul(zpow10(d)).Eq(C), "R: result is not the member the mode selects")
	} else {
		check(d >= -40 && R.Eq(C.Mul(zpow10(-d))), "R: result is not the member the mode selects")
	}
	reach("R:finite")
}

// classAssume constrains N to magnitude class j: (MAX+1)*10^(j-1) <= N < (MAX+1)*10^j  (j=0: N <= MAX)
func classAssume(N Z, j int) {
	if j == 0 {
		assume(N.Le(zMAX()))
	} else {
		assume(N.Ge(zMAX1().Mul(zpow10(j-1))) && N.Lt(zMAX1().Mul(zpow10(j))))
	}
}

func callReduce(width int, mode RoundingMode, neg bool, l [4]uint64, exp int16, t int8) (uint128, int16, Z) {
	switch width {
	case 64:
		rs, re := mode.reduce64(neg, l[0], exp)
		return rs, re, zu(l[0])
	case 128:
		n := uint128{l[0], l[1]}
		rs, re := mode.reduce128(neg, n, exp, t)
		return rs, re, z128(n)
	case 192:
		n := uint192{l[0], l[1], l[2]}
		rs, re := mode.reduce192(neg, n, exp, t)
		return rs, re, z192(n)
	default:
		n := uint256{l[0], l[1], l[2], l[3]}
		rs, re := mode.reduce256(neg, n, exp, t)
		return rs, re, z256(n)
	}
}

func ndLimbs(width int) (l [4]uint64) {
	l[0] = nondetU64("n0")
	if width >= 128 {
		l[1] = nondetU64("n1")
	}
	if width >= 192 {
		l[2] = nondetU64("n2")
	}
	if width >= 256 {
		l[3] = nondetU64("n3")
	}
	return
}

func limbsZ(width int, l [4]uint64) Z {
	switch width {
	case 64:
		return zu(l[0])
	case 128:
		return z128(uint128{l[0], l[1]})
	case 192:
		return z192(uint192{l[0], l[1], l[2]})
	}
	return z256(uint256{l[0], l[1], l[2], l[3]})
}

func ndSticky(width, j int) int8 {
	if width == 64 || j == 0 {
		return 0
	}
	t := nondetI8("t")
	assume(t >= -1 && t <= 1)
	return t
}

// vh_reduce_normal: class j, exponent anywhere such that the kept coefficient lands at 0..12287.
func vh_reduce_normal(width, j int) {
	l := ndLimbs(width)
	N := limbsZ(width, l)
	classAssume(N, j)
	mode := RoundingMode(nondetU8("mode"))
	assume(modeOK(mode))
	neg := nondetBool("neg")
	t := ndSticky(width, j)
	exp := nondetI16("exp")
	assume(int(exp)+j >= 0 && int(exp)+j <= qmax)
	if t == -1 {
		assume(exp >= 0)
	}
	if N.IsZero() {
		assume(exp >= 0 && exp <= qmax)
	}
	rs, rexp, _ := callReduce(width, mode, neg, l, exp, t)
	observe("rs0", rs[0])
	observe("rs1", rs[1])
	observe("rexp", uint64(uint16(rexp)))
	checkRounded(N, int(exp)+j, j, t, neg, mode, rs, rexp)
}

// vh_reduce_sub: class j, exponent u digits below the minimum (k = j+u digits are dropped, result exponent 0).
func vh_reduce_sub(width, j, u int) {
	l := ndLimbs(width)
	N := limbsZ(width, l)
	classAssume(N, j)
	assume(!N.IsZero())
	mode := RoundingMode(nondetU8("mode"))
	assume(modeOK(mode))
	neg := nondetBool("neg")
	t := ndSticky(width, j)
	assume(t != -1)
	k := j + u
	exp := int16(-k)
	rs, rexp, _ := callReduce(width, mode, neg, l, exp, t)
	observe("rs0", rs[0])
	observe("rs1", rs[1])
	observe("rexp", uint64(uint16(rexp)))
	if N.Lt(zpow10(k - 1)) {
		// |V| < 10^-6177: flushed to zero in every mode
		check(rs[0]|rs[1] == 0 && rexp >= 0 && rexp <= qmax, "R: magnitude below 1e-6177 is not flushed to zero")
		reach("R:flush")
		return
	}
	checkRounded(N, 0, k, t, neg, mode, rs, rexp)
}

// vh_reduce_subfar: every exponent at least 37 digits below the point where class j becomes subnormal.
func vh_reduce_subfar(width, j int) {
	l := ndLimbs(width)
	N := limbsZ(width, l)
	classAssume(N, j)
	assume(!N.IsZero())
	mode := RoundingMode(nondetU8("mode"))
	assume(modeOK(mode))
	neg := nondetBool("neg")
	t := ndSticky(width, j)
	assume(t != -1)
	exp := nondetI16("exp")
	assume(int(exp) <= -(j+37) && exp >= -25000)
	rs, rexp, _ := callReduce(width, mode, neg, l, exp, t)
	check(rs[0]|rs[1] == 0 && rexp >= 0 && rexp <= qmax, "R: magnitude far below 1e-6177 is not flushed to zero")
	reach("R:flush")
}

// vh_reduce_over: exponent v above the maximum for the kept coefficient (e = 12287+v).
// For j >= 1 every such value overflows; for j == 0 the value N*10^e is representable iff N*10^v <= MAX.
func vh_reduce_over(width, j, v int) {
	l := ndLimbs(width)
	N := limbsZ(width, l)
	classAssume(N, j)
	assume(!N.IsZero())
	mode := RoundingMode(nondetU8("mode"))
	assume(modeOK(mode))
	neg := nondetBool("neg")
	t := ndSticky(width, j)
	var exp int16
	if v > 0 {
		exp = int16(qmax + v - j)
	} else {
		// far region: at least 36 above
		exp = nondetI16("exp")
		assume(int(exp)+j >= qmax+36 && exp <= 25000)
	}
	rs, rexp, _ := callReduce(width, mode, neg, l, exp, t)
	observe("rs0", rs[0])
	observe("rs1", rs[1])
	observe("rexp", uint64(uint16(rexp)))
	if j >= 1 && v > 0 {
		// same neighbour logic as everywhere else (just below 2^110*10^(qmax+1) the lower neighbour is finite)
		checkRounded(N, qmax+v, j, t, neg, mode, rs, rexp)
		return
	}
	if v <= 0 || N.Mul(zpow10(v)).Gt(zMAX()) {
		check(rexp > qmax, "R: value above the largest finite Decimal does not signal overflow")
		reach("R:overflow")
		return
	}
	// representable by scaling the coefficient up
	check(rexp >= 0 && rexp <= qmax && z128(rs).Le(zMAX()), "R: representable large value is not returned in range")
	d := concretize(qmax + v - int(rexp))
	check(d >= 0 && d <= 40 && z128(rs).Eq(N.Mul(zpow10(d))), "R: representable large value is changed")
	reach("R:clamped")
}
