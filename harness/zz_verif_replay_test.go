package decimal128

// Native replay of solver counterexamples and concrete translator-validation runs.
// VERIF_REPLAY names a JSON file: a list of {"harness","args","inputs"}; for each entry the
// harness is run natively with nondet* reading "inputs"; the outcome is printed as one JSON line.

import (
	"encoding/json"
	"fmt"
	"os"
	"testing"
)

type verifCase struct {
	Harness string            `json:"harness"`
	Args    []int             `json:"args"`
	Inputs  map[string]string `json:"inputs"`
}

type verifOutcome struct {
	Index    int      `json:"index"`
	Failures []string `json:"failures"`
	Panic    string   `json:"panic,omitempty"`
	Assume   bool     `json:"assume_failed,omitempty"`
	Reached  []string `json:"reached"`
	Observed []string `json:"observed"`
}

func verifRunCase(i int, c verifCase) (out verifOutcome) {
	out.Index = i
	verifReset(c.Inputs)
	defer func() {
		if r := recover(); r != nil {
			if _, ok := r.(verifAssumeFailed); ok {
				out.Assume = true
			} else {
				out.Panic = fmt.Sprint(r)
			}
		}
		out.Failures = verifFailures
		out.Reached = verifReached
		out.Observed = verifObserved
	}()
	if !verifDispatch(c.Harness, c.Args) {
		out.Panic = "unknown harness " + c.Harness
	}
	return
}

func TestVerifReplay(t *testing.T) {
	path := os.Getenv("VERIF_REPLAY")
	if path == "" {
		t.Skip("VERIF_REPLAY not set")
	}
	data, err := os.ReadFile(path)
	if err != nil {
		t.Fatal(err)
	}
	var cases []verifCase
	if err := json.Unmarshal(data, &cases); err != nil {
		t.Fatal(err)
	}
	for i, c := range cases {
		o := verifRunCase(i, c)
		b, _ := json.Marshal(o)
		fmt.Printf("VERIF-OUTCOME %s\n", b)
	}
}
