package decimal128

// C02 (division): QuoWithMode hands the rounding kernel the exact quotient.
//
// The digit-generation loops run a data-dependent number of iterations, so they are cut by one-step induction
// (engine: loop cut).  At a cut loop header the executor calls the hook below
//   phase 0  on the state that really reaches the header from the function entry (base case: the invariant holds
//            with respect to the operands),
//   phase 1  after replacing every loop-carried variable by a fresh value (assume the invariant),
//   phase 2  when, after one execution of the real loop body, the body would be entered again (the invariant must
//            hold again; the path ends there).
// Invariant:  sig*o + rem == X * 10^(expH - exp),  rem < o,  trunc == 0,  where the ghost X stands for
// D * 10^(exp0 - expH) (induction hypothesis; never expanded).  At the exit the harness checks that the kernel
// receives N = floor(X*10^(expH-exp)/o) with the sticky flag set iff the division is inexact.  The induction itself
// (and  X = D*10^k  =>  the kernel value is the exact quotient) is the only step not done by the solver.

var (
	vgD, vgO Z     // operand coefficients
	vgExp0   int16 // the exponent variable before any scaling
	vgX      Z     // see above
	vgExpH   int16
	vgHave   bool
	vgClass  int // magnitude class of the havoc'd state explored by this job (-1: any)
)

func quoInvBase(S, R, O Z, exp int16, what string) {
	if !vgHave {
		k := concretize(int(vgExp0) - int(exp))
		check(k >= 0 && k <= 80 && S.Mul(O).Add(R).Eq(vgD.Mul(zpow10(k))), what+": the scaled dividend / first quotient do not satisfy sig*o + rem == D*10^k")
	} else {
		dl := concretize(int(vgExpH) - int(exp))
		check(dl >= 0 && dl <= 80 && S.Mul(O).Add(R).Eq(vgX.Mul(zpow10(dl))), what+": state handed over from the 64-bit loop violates the invariant")
	}
	check(R.Lt(O), what+": remainder not below the divisor")
}

func quoInvAssume(S, R, O Z, exp int16) {
	vgX = nondetZ("X", 260)
	assume(S.Mul(O).Add(R).Eq(vgX) && R.Lt(O))
	// consequence of the induction hypothesis X = D*10^(exp0-exp) < 2^128 * o: at most 73 digits were generated
	assume(int(exp) <= int(vgExp0) && int(exp) >= int(vgExp0)-80)
	assume(exp >= -6300 && exp <= 18500) // implied by the line above and the range of exp0 (helps the interval analysis)
	vgExpH = exp
	vgHave = true
	if vgClass >= 0 {
		// the job explores one magnitude class (four decimal digits wide) of max(sig, rem); the classes together
		// cover every state
		lo, hi := zpow10(4*vgClass), zpow10(4*vgClass+4)
		assume(S.Lt(hi) && R.Lt(hi))
		if vgClass > 0 {
			assume(S.Ge(lo) || R.Ge(lo))
		}
	}
}

func quoInvStep(S, R, O Z, exp int16, what string) {
	dl := concretize(int(vgExpH) - int(exp))
	check(dl >= 0 && dl <= 80 && R.Lt(O) && S.Mul(O).Add(R).Eq(vgX.Mul(zpow10(dl))), what+": loop invariant sig*o + rem == X*10^k is not preserved by one iteration")
}

func vlc_quo128(phase int, sig, rem uint128, exp int16, trunc int8, oSig uint128) {
	S, R, O := z128(sig), z128(rem), z128(oSig)
	if phase == 1 {
		vgO = O // the divisor is havoc'd together with the loop state (a fresh arbitrary divisor)
	}
	check(O.Eq(vgO), "C02: Quo: the divisor changed")
	switch phase {
	case 0:
		quoInvBase(S, R, O, exp, "C02: Quo (128-bit loop, base)")
		check(trunc == 0, "C02: Quo: sticky flag set before the loop")
		reach("C02:quo128base")
	case 1:
		quoInvAssume(S, R, O, exp)
		assume(trunc == 0)
	default:
		quoInvStep(S, R, O, exp, "C02: Quo (128-bit loop)")
		check(trunc == 0, "C02: Quo: digits were dropped although the loop continues")
		reach("C02:quo128step")
		assume(false)
	}
}

func vlc_quo64(phase int, sig64, rem64, carry uint64, exp int16, oSig uint128) {
	S, R, O := zu(sig64).Add(zu(carry).Mul(zpow2(64))), zu(rem64), z128(oSig)
	if phase == 1 {
		assume(oSig[1] == 0)
		vgO = O
	}
	check(O.Eq(vgO), "C02: Quo: the divisor changed")
	switch phase {
	case 0:
		quoInvBase(S, R, O, exp, "C02: Quo (64-bit loop, base)")
		check(carry == 0, "C02: Quo: carry set before the loop")
		reach("C02:quo64base")
	case 1:
		quoInvAssume(S, R, O, exp)
		assume(carry == 0)
	default:
		quoInvStep(S, R, O, exp, "C02: Quo (64-bit loop)")
		check(carry == 0, "C02: Quo: the 64-bit loop continues after a carry")
		reach("C02:quo64step")
		assume(false)
	}
}

// vh_c02_quo: path 0 = 128-bit path (a coefficient of 2^64 or more), 1 = 64-bit fast path.
// class >= 0: loop-cut job for that magnitude class; class == -2: best-effort bounded unrolling with the real operands
// (depth-first, time-boxed): every counterexample it finds replays natively.
func vh_c02_quo(path, class int) {
	vgClass = class
	d, o := ndFinite("d"), ndFinite("o")
	mode := ndMode("mode")
	ds, dExp := d.decompose()
	os, oExp := o.decompose()
	D, O := z128(ds), z128(os)
	assume(!D.IsZero() && !O.IsZero())
	if path == 0 {
		assume(ds[1]|os[1] != 0)
	} else {
		assume(ds[1]|os[1] == 0)
	}
	neg := d.Signbit() != o.Signbit()
	vgD, vgO = D, O
	vgExp0 = (dExp - exponentBias) - (oExp - exponentBias) + exponentBias
	vgHave = false
	res := d.QuoWithMode(o, mode)
	observeDec("res", res)
	if !verifSymbolic() {
		// exact reference: 90 more digits than the operands can need, sticky from the remainder
		num := D.Mul(zpow10(90))
		N := num.Div(O)
		t := int8(0)
		if !num.Mod(O).IsZero() {
			t = 1
		}
		isInf, c, e := refRound(neg, N, int(dExp)-int(oExp)-90, t, mode)
		checkValue(res, neg, isInf, c, e, "C02: Quo")
		return
	}
	check(cutCount() == 1 && (vgHave || class == -2), "C02: Quo: a non-zero quotient must be rounded exactly once")
	if cutCount() != 1 || (!vgHave && class != -2) {
		return
	}
	N, t := cutN(0), cutT(0)
	if class == -2 {
		// bounded unrolling with the real operands (no loop cut): X is the dividend itself
		vgX, vgExpH = D, vgExp0
	} else {
		O = vgO // the divisor the loop ran with (havoc'd at the cut)
	}
	dl := concretize(int(vgExpH) - int(cutExp(0)))
	check(dl >= -3 && dl <= 80, "C02: Quo: exponent bookkeeping")
	if dl >= 0 {
		T := vgX.Mul(zpow10(dl))
		NO := N.Mul(O)
		check(NO.Le(T) && T.Lt(NO.Add(O)), "C02: Quo: the kernel does not receive floor(exact quotient)")
		check((t != 0) == T.Ne(NO), "C02: Quo: sticky flag must be set exactly when the division is inexact")
	} else {
		NO := N.Mul(O).Mul(zpow10(-dl))
		check(NO.Le(vgX) && vgX.Lt(NO.Add(O.Mul(zpow10(-dl)))), "C02: Quo: the kernel does not receive floor(exact quotient)")
		check((t != 0) == vgX.Ne(NO), "C02: Quo: sticky flag must be set exactly when the division is inexact")
	}
	check(t == 0 || t == 1, "C02: Quo: sticky flag out of range")
	check(cutNeg(0) == neg && cutMode(0) == mode, "C02: Quo: sign/mode handed to the rounding kernel are wrong")
	check(res == packCut(0), "C02: Quo does not return the packed kernel result")
	reach("C02:quo")
}
