package decimal128

// C15: special operands follow IEEE 754 / Go math conventions and NaNs carry a cause.
//
// Operand classes: 0 NaN (any sign/payload/garbage), 1 +Inf, 2 -Inf (any garbage bits), 3 +0, 4 -0
// (any exponent), 5 +finite non-zero, 6 -finite non-zero.  Result classes: 0 NaN, 1 +Inf, 2 -Inf,
// 3 +0, 4 -0, 5 finite non-zero.  The expected result class `want` of every (operation, class pair)
// comes from running the corresponding float64 operation natively at check time (TestVerifFPTable)
// and is passed in as a concrete argument; wantv is the exact integer value when the float64 result
// is a small integer (Exp(0) = 1, Expm1(-Inf) = -1), else 99.

func ndOperand(name string, class int) Decimal {
	d := ndDecimal(name)
	switch class {
	case 0:
		assume(d.hi&0x7c00_0000_0000_0000 == 0x7c00_0000_0000_0000)
	case 1:
		assume(d.hi&0x7c00_0000_0000_0000 == 0x7800_0000_0000_0000 && d.hi>>63 == 0)
	case 2:
		assume(d.hi&0x7c00_0000_0000_0000 == 0x7800_0000_0000_0000 && d.hi>>63 == 1)
	case 3:
		assume(!d.isSpecial() && d.IsZero() && d.hi>>63 == 0)
	case 4:
		assume(!d.isSpecial() && d.IsZero() && d.hi>>63 == 1)
	case 5:
		assume(!d.isSpecial() && !d.IsZero() && d.hi>>63 == 0)
	default:
		assume(!d.isSpecial() && !d.IsZero() && d.hi>>63 == 1)
	}
	return d
}

func classOf(d Decimal) int {
	if d.hi&0x7c00_0000_0000_0000 == 0x7c00_0000_0000_0000 {
		return 0
	}
	neg := d.hi>>63 == 1
	if d.hi&0x7c00_0000_0000_0000 == 0x7800_0000_0000_0000 {
		if neg {
			return 2
		}
		return 1
	}
	sig, _ := d.decompose()
	if sig[0]|sig[1] == 0 {
		if neg {
			return 4
		}
		return 3
	}
	return 5
}

// payload class codes as documented by Payload.String: Zero, -Zero, Finite, -Finite, Infinite, -Infinite
func payloadClass(class int) Payload {
	switch class {
	case 1:
		return 5
	case 2:
		return 6
	case 3:
		return 1
	case 4:
		return 2
	case 5:
		return 3
	default:
		return 4
	}
}

func payloadClassName(class int) string {
	switch class {
	case 1:
		return "Infinite"
	case 2:
		return "-Infinite"
	case 3:
		return "Zero"
	case 4:
		return "-Zero"
	case 5:
		return "Finite"
	default:
		return "-Finite"
	}
}

func c15CheckClass(res Decimal, want, wantv int, what string) {
	got := classOf(res)
	if want == 5 {
		check(got == 5, what+": result class differs from the float64 operation (finite non-zero expected)")
		if wantv != 99 && got == 5 {
			neg := wantv < 0
			a := wantv
			if neg {
				a = -a
			}
			checkValue(res, neg, false, zi(int64(a)), 0, what)
		}
		return
	}
	check(got == want, what+": result class differs from the float64 operation")
}

// op: 0 Add, 1 Sub, 2 Mul, 3 Quo
func vh_c15_binop(op, cd, co, want int) {
	d, o := ndOperand("d", cd), ndOperand("o", co)
	DefaultRoundingMode = ndMode("drm")
	var res Decimal
	var opcode Payload
	var opname string
	switch op {
	case 0:
		res, opcode, opname = d.Add(o), payloadOpAdd, "Add"
	case 1:
		res, opcode, opname = d.Sub(o), payloadOpSub, "Sub"
	case 2:
		res, opcode, opname = d.Mul(o), payloadOpMul, "Mul"
	default:
		res, opcode, opname = d.Quo(o), payloadOpQuo, "Quo"
	}
	observeDec("res", res)
	if cd == 0 {
		check(res == d, "C15: a NaN operand must be propagated unchanged (first operand)")
		reach("C15:nanprop")
		return
	}
	if co == 0 {
		check(res == o, "C15: a NaN operand must be propagated unchanged (second operand)")
		reach("C15:nanprop")
		return
	}
	if want == 3 && (op == 0 || op == 1) && cd >= 3 && cd <= 4 && co >= 3 && co <= 4 {
		// signed zero sums: float64 is round-to-nearest; under ToNegativeInf x + (-x) is -0 (covered by C01)
		if DefaultRoundingMode == ToNegativeInf {
			return
		}
	}
	c15CheckClass(res, want, 99, "C15: "+opname)
	if want == 0 {
		// invalid operation: the payload names the operation and the operand classes
		p := res.Payload()
		check(p == opcode|payloadClass(cd)<<8|payloadClass(co)<<16, "C15: NaN payload does not identify the operation and operand classes")
		check(p.String() == opname+"("+payloadClassName(cd)+", "+payloadClassName(co)+")", "C15: Payload.String does not name the operation and operand classes")
		check(!res.Signbit(), "C15: a created NaN must be positive")
		reach("C15:invalid")
	}
	reach("C15:binop")
}

func c15Unary(fn int, d Decimal) (Decimal, Payload, string) {
	switch fn {
	case 0:
		return Sqrt(d), payloadOpSqrt, "Sqrt"
	case 1:
		return Cbrt(d), 0, "Cbrt"
	case 2:
		return Exp(d), 0, "Exp"
	case 3:
		return Exp2(d), 0, "Exp2"
	case 4:
		return Exp10(d), 0, "Exp10"
	case 5:
		return Expm1(d), 0, "Expm1"
	case 6:
		return Log(d), payloadOpLog, "Log"
	case 7:
		return Log2(d), payloadOpLog2, "Log2"
	case 8:
		return Log10(d), payloadOpLog10, "Log10"
	default:
		return Log1p(d), payloadOpLog1p, "Log1p"
	}
}

// vh_c15_unary: class 6 means "negative finite" (for Log1p: below -1).
// For Log1p with a negative finite argument, sub selects the exponent: 0: exponent > 0, k in 1..38: exponent -k+1
// (the argument is constrained to lie below -1).
func vh_c15_unary(fn, cd, want, wantv, sub int) {
	d := ndOperand("d", cd)
	if fn == 9 && cd == 6 {
		sig, exp := d.decompose()
		if sub == 0 {
			assume(exp > exponentBias)
		} else {
			assume(int(exp) == exponentBias-(sub-1))
			assume(z128(sig).Gt(zpow10(sub - 1)))
		}
	}
	res, opcode, opname := c15Unary(fn, d)
	observeDec("res", res)
	if cd == 0 {
		check(res == d, "C15: a NaN operand must be propagated unchanged")
		reach("C15:nanprop1")
		return
	}
	c15CheckClass(res, want, wantv, "C15: "+opname)
	if want == 0 {
		p := res.Payload()
		check(p == opcode|payloadClass(cd)<<8, "C15: NaN payload does not identify the operation and operand class")
		check(p.String() == opname+"("+payloadClassName(cd)+")", "C15: Payload.String does not name the operation and operand class")
		reach("C15:invalid1")
	}
	reach("C15:unary")
}

// QuoRem special table as stated in C03.
func vh_c15_quorem(cd, co int) {
	d, o := ndOperand("d", cd), ndOperand("o", co)
	mode := ndMode("mode")
	q, r := d.QuoRemWithMode(o, mode)
	observeDec("q", q)
	observeDec("r", r)
	dInf, oInf := cd == 1 || cd == 2, co == 1 || co == 2
	dZero, oZero := cd == 3 || cd == 4, co == 3 || co == 4
	negq := d.Signbit() != o.Signbit()
	switch {
	case cd == 0:
		check(q == d && r == d, "C15: QuoRem must propagate a NaN dividend")
	case co == 0:
		check(q == o && r == o, "C15: QuoRem must propagate a NaN divisor")
	case dInf && oInf:
		check(q.IsNaN() && r.IsNaN(), "C15: Inf QuoRem Inf must be NaN, NaN")
		check(q.Payload() == payloadOpQuoRem|payloadClass(cd)<<8|payloadClass(co)<<16, "C15: QuoRem NaN payload")
	case dInf:
		check(q.isInf() && !q.IsNaN() && q.Signbit() == negq && r.IsNaN(), "C15: Inf QuoRem y must be (Inf, NaN)")
		check(r.Payload() == payloadOpQuoRem|payloadClass(cd)<<8|payloadClass(co)<<16, "C15: QuoRem NaN payload")
	case oInf:
		check(q.IsZero() && !q.isSpecial() && q.Signbit() == negq && r == d, "C15: x QuoRem Inf must be (signed zero, x)")
	case dZero && oZero:
		check(q.IsNaN() && r.IsNaN(), "C15: 0 QuoRem 0 must be NaN, NaN")
		check(q.Payload() == payloadOpQuoRem|payloadClass(cd)<<8|payloadClass(co)<<16, "C15: QuoRem NaN payload")
	case oZero:
		check(q.isInf() && !q.IsNaN() && q.Signbit() == negq && r.IsNaN(), "C15: x QuoRem 0 must be (Inf, NaN)")
		check(r.Payload() == payloadOpQuoRem|payloadClass(cd)<<8|payloadClass(co)<<16, "C15: QuoRem NaN payload")
	case dZero:
		check(q.IsZero() && !q.isSpecial() && q.Signbit() == negq && r.IsZero() && !r.isSpecial() && r.Signbit() == d.Signbit(), "C15: 0 QuoRem y must be (signed zero, zero of x's sign)")
	}
	reach("C15:quorem")
}

// every bit pattern is exactly one of NaN / Inf / zero / finite non-zero, and the predicates agree.
func vh_c15_classify() {
	d := ndDecimal("d")
	n := 0
	if d.IsNaN() {
		n++
	}
	if d.IsInf(0) {
		n++
	}
	if d.IsZero() {
		n++
	}
	finite := !d.IsNaN() && !d.IsInf(0) && !d.IsZero()
	if finite {
		n++
	}
	check(n == 1, "C15: IsNaN / IsInf / IsZero are not mutually exclusive")
	check(d.Signbit() == (d.hi>>63 == 1), "C15: Signbit is not the sign bit")
	check(d.IsInf(1) == (d.IsInf(0) && !d.Signbit()) && d.IsInf(-1) == (d.IsInf(0) && d.Signbit()), "C15: IsInf(sign) inconsistent")
	check(d.IsNaN() == (classOf(d) == 0) && d.IsInf(0) == (classOf(d) == 1 || classOf(d) == 2) && d.IsZero() == (classOf(d) == 3 || classOf(d) == 4), "C15: predicates disagree with the bit-level classification")
	check(d.isSpecial() == (d.IsNaN() || d.IsInf(0)), "C15: isSpecial inconsistent")
	check(Abs(d).Signbit() == false && d.Neg().Signbit() != d.Signbit(), "C15: Abs/Neg sign handling")
	check(Abs(d).lo == d.lo && d.Neg().Neg() == d, "C15: Abs/Neg must only touch the sign bit")
	check(Inf(1) == inf(false) && Inf(-1) == inf(true) && Inf(0) == inf(false) && NaN().IsNaN(), "C15: Inf()/NaN() constructors")
	if d.IsNaN() {
		check(expectPanic(func() { d.Sign() }), "C15: Sign(NaN) must panic")
	} else {
		check(expectPanic(func() { d.Payload() }), "C15: Payload of a non-NaN must panic")
	}
	reach("C15:classify")
}
