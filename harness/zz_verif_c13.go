package decimal128

import "encoding/json"

// C13 (decoding half): UnmarshalJSON maps every JSON number to the Decimal Parse would produce, leaves
// the receiver untouched on null (and on empty input), and returns an error - never a panic, never a
// silently wrong value - for everything else.  encoding/json itself is not executed: its documented
// contract (it hands UnmarshalJSON the validated token) is the stub, so the method is driven directly
// with arbitrary byte strings, which is a superset of what encoding/json can pass.
//
// refJSONNumber: RFC 8259  number = [ minus ] int [ frac ] [ exp ]
func refJSONNumber(b []byte) (ok bool, neg bool, D Z, E Z, nd int) {
	n := len(b)
	i := 0
	D, E = zi(0), zi(0)
	if i < n && b[i] == '-' {
		neg = true
		i++
	}
	if i >= n || !isDig(b[i]) {
		return false, neg, D, E, 0
	}
	if b[i] == '0' {
		nd++
		i++
	} else {
		for i < n && isDig(b[i]) {
			D = D.Mul(zi(10)).Add(zu(uint64(b[i] - '0')))
			nd++
			i++
		}
	}
	nfrac := 0
	if i < n && b[i] == '.' {
		i++
		if i >= n || !isDig(b[i]) {
			return false, neg, D, E, nd
		}
		for i < n && isDig(b[i]) {
			D = D.Mul(zi(10)).Add(zu(uint64(b[i] - '0')))
			nd++
			nfrac++
			i++
		}
	}
	ev := zi(0)
	eneg := false
	if i < n && (b[i] == 'e' || b[i] == 'E') {
		i++
		if i < n && (b[i] == '+' || b[i] == '-') {
			eneg = b[i] == '-'
			i++
		}
		if i >= n || !isDig(b[i]) {
			return false, neg, D, E, nd
		}
		for i < n && isDig(b[i]) {
			ev = ev.Mul(zi(10)).Add(zu(uint64(b[i] - '0')))
			i++
		}
	}
	if i != n {
		return false, neg, D, E, nd
	}
	E = zsigned(eneg, ev).Sub(zi(int64(nfrac)))
	return true, neg, D, E, nd
}

func vh_c13_unmarshal(L int) {
	b := ndBytes(L)
	DefaultRoundingMode = ndMode("drm")
	d := ndDecimal("prev")
	orig := d
	err := d.UnmarshalJSON(b)
	observeDec("d", d)
	observeBool("err", err != nil)
	if L == 0 || string(b) == "null" {
		check(err == nil && d == orig, "C13: null (and empty input) must leave the receiver untouched without error")
		reach("C13:null")
		return
	}
	ok, neg, D, E, nd := refJSONNumber(b)
	if !ok {
		// not a JSON number: an error, or - for the lenient forms the shared parser also accepts
		// ("+1", "1.", ".5", "01") - exactly the value the text denotes; never a wrong value
		if err != nil {
			check(d == orig, "C13: a failed UnmarshalJSON modified the receiver")
			_, isType := err.(*json.UnmarshalTypeError)
			check(isType, "C13: non-numbers must be reported as *json.UnmarshalTypeError")
			reach("C13:reject")
			return
		}
		kind, neg2, D2, E2, nd2 := refLiteral(b)
		check(kind == 1, "C13: UnmarshalJSON accepted text that denotes no number")
		if kind != 1 {
			return
		}
		neg, D, E, nd = neg2, D2, E2, nd2
		reach("C13:lenient")
	} else if err != nil {
		// a valid JSON number may only fail because it is out of range
		_, isType := err.(*json.UnmarshalTypeError)
		check(isType && d == orig, "C13: a JSON number was rejected with an unexpected error")
		check(cutCount() == 1 && cutRExp(0) > maxBiasedExponent || cutCount() == 0 && E.Ge(zi(6112)), "C13: a representable JSON number was rejected")
		reach("C13:range")
		return
	}
	if D.IsZero() {
		check(d.IsZero() && !d.isSpecial() && d.Signbit() == neg, "C13: a zero JSON number must give a zero with the literal's sign")
		reach("C13:zero")
		return
	}
	if !verifSymbolic() {
		isInf, c, ee := refRound(neg, D, E.Int(), 0, DefaultRoundingMode)
		if !isInf {
			checkValue(d, neg, false, c, ee, "C13")
		}
		return
	}
	if cutCount() == 0 {
		c05Early(d, nil, neg, D, E, nd)
		return
	}
	check(cutN(0).Eq(D) && zi(int64(cutExp(0))).Eq(E.Add(zi(exponentBias))) && cutT(0) == 0 && cutNeg(0) == neg && cutMode(0) == DefaultRoundingMode,
		"C13: the JSON number's exact value does not reach the rounding kernel")
	check(d == packCut(0), "C13: UnmarshalJSON does not store the packed kernel result")
	reach("C13:number")
}
