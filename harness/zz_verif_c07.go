package decimal128

// C07: formatting with a precision rounds half-even and lays out like float64.
//
// One configuration = verb x precision x (digit count L, trailing zeros z) x decimal exponent of the leading digit
// x flags x width, all concrete; the coefficient inside its (L,z) class and the sign are symbolic.
//
//   core  := d.Format(State{flags, precision, no width}, verb)      read back by an independent numeral reader:
//            value == the exact value rounded half-to-even at the position the precision selects (oracle over
//            mathematical integers), number of fraction digits, form (g switch-over), '#', sign flags
//   out   := d.Format(State{flags, precision, width}, verb)         == refPad(core)   (padding rules of fmt)
//   app   := d.Append(nil, spec)                                     == out            (spec = flags width .prec verb)
//   pkg   := Append(nil, d, verb, prec)                              == core           (no flags, precision given)
//
// Decimal.digits is replaced by its contract (see zz_verif_digits.go).

// zchain10 is floor(v / 10^k) computed as k successive divisions by ten.
func zchain10(v Z, k int) Z {
	for i := 0; i < k; i++ {
		v = v.Div(zi(10))
	}
	return v
}

// refRoundHalfEven: M (n digits) with its last k digits dropped, rounded half-to-even.  k may exceed n.
func refRoundHalfEven(M Z, n, k int) Z {
	if k <= 0 {
		return M
	}
	if k > n {
		return zi(0)
	}
	q := zchain10(M, k)
	r := M.Sub(q.Mul(zpow10(k)))
	r2 := r.Mul(zi(2))
	h := zpow10(k)
	if r2.Gt(h) {
		return q.Add(zi(1))
	}
	if r2.Eq(h) && !q.Mod(zi(2)).IsZero() {
		return q.Add(zi(1))
	}
	return q
}

// textValueIs: the numeral r denotes exactly Q x 10^s.
func textValueIs(r numeral, Q Z, s int, what string) {
	x := concretize(zsigned(r.expNeg, r.exp).Int())
	dd := s - (x - r.nfrac)
	if dd >= 0 {
		check(dd <= 6300 && r.mant.Eq(Q.Mul(zpow10(dd))), what)
	} else {
		check(-dd <= 6300 && r.mant.Mul(zpow10(-dd)).Eq(Q), what)
	}
}

func c07Spec(plus, minus, sharp, space, zero bool, width, prec int, verb byte) string {
	b := []byte{}
	if plus {
		b = append(b, '+')
	}
	if minus {
		b = append(b, '-')
	}
	if sharp {
		b = append(b, '#')
	}
	if space {
		b = append(b, ' ')
	}
	if zero {
		b = append(b, '0')
	}
	if width > 0 {
		b = appendInt(b, width)
	}
	if prec >= 0 {
		b = append(b, '.')
		b = appendInt(b, prec)
	}
	b = append(b, verb)
	return string(b)
}

func appendInt(b []byte, v int) []byte {
	if v >= 10 {
		b = appendInt(b, v/10)
	}
	return append(b, '0'+byte(v%10))
}

// refPad: fmt's padding of a formatted number (core starts with its sign character if it has one).
func refPad(core []byte, width int, minus, zero bool) []byte {
	n := len(core)
	if n >= width {
		return core
	}
	p := width - n
	out := make([]byte, 0, width)
	if minus {
		out = append(out, core...)
		for i := 0; i < p; i++ {
			out = append(out, ' ')
		}
		return out
	}
	if zero {
		s := 0
		if n > 0 && (core[0] == '+' || core[0] == '-' || core[0] == ' ') {
			out = append(out, core[0])
			s = 1
		}
		for i := 0; i < p; i++ {
			out = append(out, '0')
		}
		return append(out, core[s:]...)
	}
	for i := 0; i < p; i++ {
		out = append(out, ' ')
	}
	return append(out, core...)
}

func bytesEq(a, b []byte) bool {
	if len(a) != len(b) {
		return false
	}
	for i := range a {
		if a[i] != b[i] {
			return false
		}
	}
	return true
}

func c07State(flags, width, prec int) *verifFmtState {
	return &verifFmtState{wid: width, hasWid: width > 0, prec: prec, hasPrec: prec >= 0,
		plus: flags&1 != 0, minus: flags&2 != 0, sharp: flags&4 != 0, space: flags&8 != 0, zero: flags&16 != 0}
}

// digitsOf: number of decimal digits of Q when it is known to be below 10^(p+1) and at least 10^(p-1) (p >= 1).
func isPow10(Q Z, p int) bool { return Q.Eq(zpow10(p)) }

// vh_c07: verbIdx 0..5 = e E f F g G; prec -1 = absent; L == 0: the value is a zero (z, adj ignored).
func vh_c07(verbIdx, prec, L, z, adj, flags, width int) {
	verb := "eEfFgG"[verbIdx]
	neg := nondetBool("neg")
	var d Decimal
	var M Z
	n := L - z
	ez := 0
	if L == 0 {
		exp16 := nondetI16("exp")
		assume(exp16 >= 0 && exp16 <= maxBiasedExponent)
		d = compose(neg, uint128{}, exp16)
		M = zi(0)
	} else {
		sig, N := ndCoefficientLZ(L, z)
		ev := adj - (L - 1)
		assume(ev+exponentBias >= 0 && ev+exponentBias <= maxBiasedExponent)
		d = compose(neg, sig, int16(ev+exponentBias))
		M = N.Div(zpow10(z))
		ez = ev + z
	}
	plus, minus, sharp, space, zero := flags&1 != 0, flags&2 != 0, flags&4 != 0, flags&8 != 0, flags&16 != 0

	st0 := c07State(flags, 0, prec)
	d.Format(st0, rune(verb))
	core := st0.buf
	for i := 0; i < len(core) && i < 60; i++ {
		observe("c", uint64(core[i]))
	}
	st1 := c07State(flags, width, prec)
	d.Format(st1, rune(verb))
	out := st1.buf
	check(bytesEq(out, refPad(core, width, minus, zero)), "C07: width / '-' / '0' padding differs from the fmt rules")
	app := d.Append(nil, c07Spec(plus, minus, sharp, space, zero, width, prec, verb))
	check(bytesEq(app, out), "C07: Decimal.Append(spec) differs from Decimal.Format with the same flags")
	if flags == 0 && prec >= 0 && verb != 'F' {
		pk := Append(nil, d, verb, prec)
		check(bytesEq(pk, core), "C07: package-level Append differs from the %-verb output")
	}
	reach("C07:layout")

	// ---- the core numeral: sign
	check(len(core) > 0, "C07: empty output")
	if len(core) == 0 {
		return
	}
	body := core
	if neg {
		check(core[0] == '-', "C07: negative value without '-'")
		body = core[1:]
	} else if plus {
		check(core[0] == '+', "C07: '+' flag must print a plus sign")
		body = core[1:]
	} else if space {
		check(core[0] == ' ', "C07: ' ' flag must print a space for the sign")
		body = core[1:]
	}
	refBarePoint = sharp
	r := refNumeral(body)
	refBarePoint = false
	check(r.ok && !r.neg, "C07: output is not a decimal numeral")
	if !r.ok {
		return
	}
	if r.nint > 1 {
		check(r.first != '0', "C07: superfluous leading zero")
	}
	if r.hasExp {
		check(r.nint == 1 && r.expSign && r.nexp >= 2 && (r.nexp == 2 || !r.exp.Lt(zi(100))), "C07: exponent layout (d.ddde+XX, at least two exponent digits)")
		check((r.expByte == 'E') == (verb == 'E' || verb == 'G'), "C07: exponent letter")
	}

	P := prec
	switch verb {
	case 'e', 'E':
		if P < 0 {
			P = 6
		}
		check(r.hasExp && r.nfrac == P && r.hasPoint == (P > 0 || sharp), "C07: %e layout (one digit, precision digits, exponent)")
		if L == 0 {
			check(r.mant.IsZero() && r.exp.IsZero(), "C07: zero must print as 0e+00")
			reach("C07:zero")
			return
		}
		k := n - (P + 1)
		Q := refRoundHalfEven(M, n, k)
		s := ez
		if k > 0 {
			s = ez + k
		}
		textValueIs(r, Q, s, "C07: %e digits are not the exact value rounded half-to-even")
		check(r.first != '0', "C07: %e mantissa must start with a non-zero digit")
		reach("C07:e")
	case 'f', 'F':
		if P < 0 {
			P = 6
		}
		check(!r.hasExp && r.nfrac == P && r.hasPoint == (P > 0 || sharp), "C07: %f layout (precision digits after the point)")
		if L == 0 {
			check(r.mant.IsZero() && r.nint == 1, "C07: zero must print as 0.000")
			reach("C07:zero")
			return
		}
		k := -P - ez
		Q := refRoundHalfEven(M, n, k)
		s := ez
		if k > 0 {
			s = -P
		}
		textValueIs(r, Q, s, "C07: %f digits are not the exact value rounded half-to-even")
		reach("C07:f")
	default:
		// g / G
		shortest := P < 0
		if P == 0 {
			P = 1
		}
		if L == 0 {
			check(r.mant.IsZero() && !r.hasExp && r.nint == 1, "C07: zero must print positionally with %g")
			if sharp {
				want := P
				if shortest {
					want = 6
				}
				check(r.hasPoint && r.nfrac == want-1, "C07: %#g of zero keeps precision digits")
			} else {
				check(!r.hasPoint, "C07: %g of zero is 0")
			}
			reach("C07:zero")
			return
		}
		k := 0
		eprec := 6
		if !shortest {
			k = n - P
			eprec = P
		}
		Q := refRoundHalfEven(M, n, k)
		s := ez
		if k > 0 {
			s = ez + k
		}
		// decimal exponent of the leading digit after rounding
		X := adj
		nq := n // digits of Q
		if k > 0 {
			nq = P
			if isPow10(Q, P) {
				X = adj + 1
				nq = P + 1
			}
		}
		textValueIs(r, Q, s, "C07: %g digits are not the exact value rounded half-to-even")
		wantExp := X < -4 || X >= eprec
		check(r.hasExp == wantExp, "C07: %g chose the wrong form (exponent < -4 || exponent >= precision)")
		sigPrinted := r.nint + r.nfrac - r.lead
		if sharp {
			want := P
			if shortest {
				want = 6
				if n > 6 {
					want = n
				}
			}
			if !wantExp && X+1 > want {
				want = X + 1 // integer part is never cut
			}
			check(r.hasPoint && sigPrinted == want, "C07: %#g must print exactly precision significant digits and a decimal point")
		} else {
			if r.hasPoint {
				check(r.last != '0', "C07: %g must strip trailing zeros of the fraction")
			}
			if r.hasExp {
				check(r.nfrac == 0 || r.last != '0', "C07: %g must strip trailing zeros of the mantissa")
			}
		}
		_ = nq
		reach("C07:g")
	}
}
