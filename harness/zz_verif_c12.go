package decimal128

// C12: the 16-byte binary form is IEEE 754-2008 decimal128 BID, big-endian, lossless.

// refBID is an independent decoder written from the standard's field layout.
// class: 0 finite, 1 infinity, 2 NaN.
func refBID(b []byte) (class int, neg bool, coeff Z, exp int) {
	neg = b[0]>>7 == 1
	if b[0]&0x7c == 0x78 {
		return 1, neg, zi(0), 0
	}
	if b[0]&0x7c == 0x7c {
		return 2, neg, zi(0), 0
	}
	// trailing bits of the coefficient, big-endian, bytes 3..15
	low := zi(0)
	for i := 3; i < 16; i++ {
		low = low.Mul(zpow2(8)).Add(zu(uint64(b[i])))
	}
	if (b[0]>>5)&3 != 3 {
		// form 1: s | 14-bit exponent | 113-bit coefficient
		exp = int(b[0]&0x7f)<<7 | int(b[1]>>1)
		top := zu(uint64(b[1]&1)).Mul(zpow2(8)).Add(zu(uint64(b[2])))
		coeff = top.Mul(zpow2(104)).Add(low)
		return 0, neg, coeff, exp
	}
	// form 2: s | 11 | 14-bit exponent | implied 100 | 111-bit coefficient
	exp = int(b[0]&0x1f)<<9 | int(b[1])<<1 | int(b[2]>>7)
	top := zu(uint64(b[2] & 0x7f))
	coeff = zpow2(113).Add(top.Mul(zpow2(104))).Add(low)
	return 0, neg, coeff, exp
}

func vh_c12_marshal() {
	d := Decimal{nondetU64("lo"), nondetU64("hi")}
	data, err := d.MarshalBinary()
	check(err == nil, "C12: MarshalBinary returned an error")
	check(len(data) == 16, "C12: MarshalBinary did not return 16 bytes")
	for i := 0; i < 16; i++ {
		observe("b", uint64(data[i]))
	}
	class, neg, coeff, exp := refBID(data)
	check(neg == d.Signbit(), "C12: sign bit is not the first bit of the BID form")
	if class == 2 {
		check(d.IsNaN(), "C12: bytes decode as NaN but the Decimal is not NaN")
	} else if class == 1 {
		check(d.isInf() && !d.IsNaN(), "C12: bytes decode as Inf but the Decimal is not Inf")
	} else {
		check(!d.isSpecial(), "C12: bytes decode as finite but the Decimal is special")
		sig, e := d.decompose()
		check(z128(sig).Eq(coeff), "C12: coefficient differs from an independent BID decoding")
		check(int(e) == exp, "C12: exponent differs from an independent BID decoding")
		reach("finite")
	}
	var back Decimal
	err = back.UnmarshalBinary(data)
	check(err == nil, "C12: UnmarshalBinary rejected MarshalBinary's output")
	check(back == d, "C12: Unmarshal(Marshal(d)) is not d bit for bit")
}

func vh_c12_unmarshal(n int) {
	data := make([]byte, n)
	for i := 0; i < n; i++ {
		data[i] = nondetU8("b")
	}
	d := Decimal{nondetU64("lo"), nondetU64("hi")}
	orig := d
	err := d.UnmarshalBinary(data)
	check((err == nil) == (n == 16), "C12: UnmarshalBinary must accept exactly the 16-byte strings")
	if n != 16 {
		check(d == orig, "C12: failed UnmarshalBinary modified the receiver")
		return
	}
	observe("lo", d.lo)
	observe("hi", d.hi)
	// big-endian layout
	hi, lo := zi(0), zi(0)
	for i := 0; i < 8; i++ {
		hi = hi.Mul(zpow2(8)).Add(zu(uint64(data[i])))
		lo = lo.Mul(zpow2(8)).Add(zu(uint64(data[8+i])))
	}
	check(zu(d.hi).Eq(hi) && zu(d.lo).Eq(lo), "C12: UnmarshalBinary is not big-endian")
	out, err2 := d.MarshalBinary()
	check(err2 == nil && len(out) == 16, "C12: re-marshal failed")
	for i := 0; i < 16; i++ {
		check(out[i] == data[i], "C12: Marshal(Unmarshal(b)) differs from b")
	}
	reach("roundtrip")
}
