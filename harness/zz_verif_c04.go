package decimal128

// C04: comparisons agree with the exact order of the denoted values (every cohort member).

// c04Vals returns the signed exact values of d and o in units of 10^min(exp) for a concrete gap.
func c04Vals(d, o Decimal, gap int) (Z, Z, Z, Z) {
	ds, _ := d.decompose()
	os, _ := o.decompose()
	ad, ao := z128(ds), z128(os)
	if gap >= 0 {
		ad = ad.Mul(zpow10(gap))
	} else {
		ao = ao.Mul(zpow10(-gap))
	}
	return zsigned(d.Signbit(), ad), zsigned(o.Signbit(), ao), ad, ao
}

func c04CheckAll(d, o Decimal, vd, vo, ad, ao Z) {
	want := zcmp(vd, vo)
	got := d.Cmp(o)
	observe("cmp", uint64(uint8(got)))
	check(int(got) == want, "C04: Cmp disagrees with the exact order")
	check(got.Less() == (want < 0) && got.Greater() == (want > 0) && got.Equal() == (want == 0), "C04: CmpResult predicates disagree with the exact order")
	check(got.LessOrEqual() == (want <= 0) && got.GreaterOrEqual() == (want >= 0), "C04: CmpResult LessOrEqual/GreaterOrEqual disagree with the exact order")
	check(d.Equal(o) == (want == 0), "C04: Equal disagrees with the exact order")
	wantAbs := zcmp(ad, ao)
	gotAbs := d.CmpAbs(o)
	observe("cmpabs", uint64(uint8(gotAbs)))
	check(int(gotAbs) == wantAbs, "C04: CmpAbs disagrees with the exact order of magnitudes")
	check(Compare(d, o) == want, "C04: Compare disagrees with the exact order")
	check(d.IsZero() == ad.IsZero() && o.IsZero() == ao.IsZero(), "C04: IsZero wrong")
	check(d.Sign() == zcmp(vd, zi(0)), "C04: Sign wrong")
	// Min / Max: an operand (or a canonical zero) whose value is the exact min / max; -0 below +0
	mn, mx := Min(d, o), Max(d, o)
	observeDec("min", mn)
	observeDec("max", mx)
	if ad.IsZero() && ao.IsZero() {
		check(mn.IsZero() && !mn.isSpecial() && mn.Signbit() == (d.Signbit() || o.Signbit()), "C04: Min of two zeros must be -0 if either is -0")
		check(mx.IsZero() && !mx.isSpecial() && mx.Signbit() == (d.Signbit() && o.Signbit()), "C04: Max of two zeros must be +0 unless both are -0")
		reach("C04:zeros")
		return
	}
	check((mn == d && want <= 0) || (mn == o && want >= 0), "C04: Min is not an operand equal to the exact minimum")
	check((mx == d && want >= 0) || (mx == o && want <= 0), "C04: Max is not an operand equal to the exact maximum")
	reach("C04:finite")
}

func vh_c04_gap(gap int) {
	d, o := ndFinite("d"), ndFinite("o")
	_, dExp := d.decompose()
	_, oExp := o.decompose()
	assume(int(dExp)-int(oExp) == gap)
	vd, vo, ad, ao := c04Vals(d, o, gap)
	c04CheckAll(d, o, vd, vo, ad, ao)
}

// vh_c04_far: |gap| >= 36: a non-zero operand with the larger exponent has the larger magnitude.
func vh_c04_far(side int) {
	d, o := ndFinite("d"), ndFinite("o")
	ds, dExp := d.decompose()
	os, oExp := o.decompose()
	var big, small Z
	if side > 0 {
		assume(int(dExp)-int(oExp) >= 36)
		big, small = z128(ds), z128(os)
	} else {
		assume(int(oExp)-int(dExp) >= 36)
		big, small = z128(os), z128(ds)
	}
	// order-isomorphic stand-ins: (big != 0 ? 2 : 0) versus (small != 0 ? 1 : 0)
	ab, as := zi(0), zi(0)
	if !big.IsZero() {
		ab = zi(2)
	}
	if !small.IsZero() {
		as = zi(1)
	}
	if side > 0 {
		c04CheckAll(d, o, zsigned(d.Signbit(), ab), zsigned(o.Signbit(), as), ab, as)
	} else {
		c04CheckAll(d, o, zsigned(d.Signbit(), as), zsigned(o.Signbit(), ab), as, ab)
	}
}

// class: 0 finite (any), 1 +Inf, 2 -Inf, 3 NaN (any sign / payload / garbage bits)
func ndClass(name string, class int) Decimal {
	d := ndDecimal(name)
	switch class {
	case 0:
		assume(!d.isSpecial())
	case 1:
		assume(d.hi&0x7c00_0000_0000_0000 == 0x7800_0000_0000_0000 && d.hi>>63 == 0)
	case 2:
		assume(d.hi&0x7c00_0000_0000_0000 == 0x7800_0000_0000_0000 && d.hi>>63 == 1)
	default:
		assume(d.hi&0x7c00_0000_0000_0000 == 0x7c00_0000_0000_0000)
	}
	return d
}

func vh_c04_special(cd, co int) {
	d, o := ndClass("d", cd), ndClass("o", co)
	got := d.Cmp(o)
	gotAbs := d.CmpAbs(o)
	observe("cmp", uint64(uint8(got)))
	observe("cmpabs", uint64(uint8(gotAbs)))
	if cd == 3 || co == 3 {
		check(!got.Less() && !got.Equal() && !got.Greater() && !got.LessOrEqual() && !got.GreaterOrEqual(), "C04: Cmp with NaN must be none of Less/Equal/Greater")
		check(!gotAbs.Less() && !gotAbs.Equal() && !gotAbs.Greater(), "C04: CmpAbs with NaN must be none of Less/Equal/Greater")
		check(!d.Equal(o), "C04: Equal with NaN must be false")
		wantc := 0
		if cd == 3 && co != 3 {
			wantc = -1
		} else if cd != 3 {
			wantc = 1
		}
		check(Compare(d, o) == wantc, "C04: Compare must order NaN first")
		check(Min(d, o).IsNaN() && Max(d, o).IsNaN(), "C04: Min/Max with NaN must be NaN")
		check(expectPanic(func() { d.Sign(); o.Sign() }), "C04: Sign of NaN must panic")
		reach("C04:nan")
		return
	}
	// rank: -Inf = -2, finite = sign of value (-1,0,1), +Inf = 2 ; only used when at least one is infinite
	rank := func(x Decimal, c int) int {
		if c == 1 {
			return 2
		}
		if c == 2 {
			return -2
		}
		return 0
	}
	want := 0
	rd, ro := rank(d, cd), rank(o, co)
	if rd < ro {
		want = -1
	} else if rd > ro {
		want = 1
	}
	check(int(got) == want && Compare(d, o) == want && d.Equal(o) == (want == 0), "C04: infinities must be the extremes of the order")
	ard, aro := rd, ro
	if ard < 0 {
		ard = -ard
	}
	if aro < 0 {
		aro = -aro
	}
	wantAbs := 0
	if ard < aro {
		wantAbs = -1
	} else if ard > aro {
		wantAbs = 1
	}
	check(int(gotAbs) == wantAbs, "C04: CmpAbs with infinities")
	mn, mx := Min(d, o), Max(d, o)
	check((want <= 0 && mn == d) || (want >= 0 && mn == o), "C04: Min with infinities")
	check((want >= 0 && mx == d) || (want <= 0 && mx == o), "C04: Max with infinities")
	check(!d.IsZero() || cd == 0, "C04: IsZero on an infinity")
	reach("C04:inf")
}
