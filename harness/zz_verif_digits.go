package decimal128

// Contract of Decimal.digits (format.go) over mathematical integers: the decimal digits of the coefficient
// with the trailing zeros moved into the exponent.  The digits are produced least significant first as a
// chain  q_{i+1} = q_i div 10, digit_i = q_i mod 10  so that a reader's  sum digit_i 10^i  telescopes back to the
// coefficient in the encoder's linear normal form.  vh_lemma_Decimal_digits proves  real body == contract  per
// (digit count, trailing zeros) class from the current source on every run that used the contract.

func sum_Decimal_digits(d Decimal, digs *digits) {
	*digs = digits{}
	digs.neg = d.Signbit()
	sig, exp := d.decompose()
	N := z128(sig)
	if N.IsZero() {
		return
	}
	L := zlog10(N) + 1
	z := 0
	for z < L-1 && N.Mod(zpow10(z+1)).IsZero() {
		z++
	}
	q := N.Div(zpow10(z))
	n := L - z
	for i := n - 1; i >= 0; i-- {
		digs.dig[i] = '0' + byte(q.Mod(zi(10)).U64())
		q = q.Div(zi(10))
	}
	digs.exp = int(exp-exponentBias) + z
	digs.ndig = n
}

// ndCoefficientLZ: a coefficient with exactly L decimal digits of which exactly z are trailing zeros
// (N = M x 10^z, M mod 10 != 0), not above 5*2^111-1.  L in 1..35, 0 <= z < L.
func ndCoefficientLZ(L, z int) (uint128, Z) {
	M := nondetZ("m", 120)
	assume(M.Ge(zpow10(L-z-1)) && M.Lt(zpow10(L-z)) && !M.Mod(zi(10)).IsZero())
	N := M.Mul(zpow10(z))
	assume(N.Le(zMAX()))
	return N.To128(), N
}

func vh_lemma_Decimal_digits(L, z int) {
	var d Decimal
	if L == 0 {
		d = ndDecimal("d")
		assume(!d.isSpecial())
		sig, _ := d.decompose()
		if z == 0 {
			assume(sig[0]|sig[1] == 0)
		}
	} else {
		sig, _ := ndCoefficientLZ(L, z)
		exp := nondetI16("exp")
		assume(exp >= 0 && exp <= maxBiasedExponent)
		d = compose(nondetBool("neg"), sig, exp)
	}
	var real, want digits
	// arbitrary previous contents: digits() must reset them
	real.ndig = nondetInt("pn")
	real.exp = nondetInt("pe")
	real.dig[0] = nondetByte("pd")
	want = real
	d.digits(&real)
	sum_Decimal_digits(d, &want)
	check(real.neg == want.neg && real.ndig == want.ndig && real.exp == want.exp, "Decimal.digits differs from its contract (sign, digit count or exponent)")
	for i := 0; i < len(real.dig); i++ {
		check(real.dig[i] == want.dig[i], "Decimal.digits differs from its contract (digit)")
	}
	reach("digits:lemma")
}
