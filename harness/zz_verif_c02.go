package decimal128

// C02: multiplication and division are correctly rounded in all six modes.
// Mul: the exact product (up to 227 bits) must reach the rounding kernel unchanged.

func vh_c02_mul() {
	d, o := ndFinite("d"), ndFinite("o")
	mode := ndMode("mode")
	res := d.MulWithMode(o, mode)
	observeDec("res", res)
	ds, dExp := d.decompose()
	os, oExp := o.decompose()
	P := z128(ds).Mul(z128(os))
	neg := d.Signbit() != o.Signbit()
	if !verifSymbolic() {
		if P.IsZero() {
			check(res.IsZero() && !res.isSpecial() && res.Signbit() == neg, "C02: zero product must be a zero with the XOR sign")
			return
		}
		isInf, c, e := refRound(neg, P, int(dExp)+int(oExp)-2*exponentBias, 0, mode)
		checkValue(res, neg, isInf, c, e, "C02: Mul")
		return
	}
	if P.IsZero() {
		check(cutCount() == 0 && res.IsZero() && !res.isSpecial() && res.Signbit() == neg, "C02: zero product must be a zero with the XOR sign")
		reach("C02:mulzero")
		return
	}
	check(cutCount() == 1, "C02: a non-zero product must be rounded exactly once")
	if cutCount() != 1 {
		return
	}
	check(cutN(0).Eq(P), "C02: the exact product does not reach the rounding kernel")
	check(int(cutExp(0)) == int(dExp)+int(oExp)-exponentBias, "C02: exponent of the product is not the sum of the exponents")
	check(cutT(0) == 0 && cutNeg(0) == neg && cutMode(0) == mode, "C02: sticky/sign/mode handed to the rounding kernel are wrong")
	check(res == packCut(0), "C02: Mul does not return the packed kernel result")
	reach("C02:mul")
}

func vh_c02_default() {
	d, o := ndDecimal("d"), ndDecimal("o")
	DefaultRoundingMode = ndMode("drm")
	check(d.Mul(o) == d.MulWithMode(o, DefaultRoundingMode), "C02: Mul differs from MulWithMode(DefaultRoundingMode)")
	check(d.Quo(o) == d.QuoWithMode(o, DefaultRoundingMode), "C02: Quo differs from QuoWithMode(DefaultRoundingMode)")
	reach("C02:default")
}
