package decimal128

import "strconv"

// C05: parsing returns the correctly rounded value of every well-formed literal and rejects the rest.
//
// refLiteral is an independent recogniser for the documented syntax:
//   [+-] digits with an optional '.', '_' only between two digits, optional e/E [+-] digits;
//   or NaN / Inf / Infinity in any letter case (Inf/Infinity optionally signed, NaN too).
// kind: 0 not a literal, 1 number, 2 infinity, 3 NaN.  For numbers the value is D x 10^E.

func isDig(c byte) bool { return c >= '0' && c <= '9' }

func foldEq(b []byte, w string) bool {
	if len(b) != len(w) {
		return false
	}
	for i := 0; i < len(w); i++ {
		if b[i] != w[i] && b[i] != w[i]-32 {
			return false
		}
	}
	return true
}

func refLiteral(b []byte) (kind int, neg bool, D Z, E Z, nd int) {
	n := len(b)
	i := 0
	D, E = zi(0), zi(0)
	if n == 0 {
		return 0, false, D, E, 0
	}
	if b[0] == '+' || b[0] == '-' {
		neg = b[0] == '-'
		i = 1
	}
	rest := b[i:]
	if foldEq(rest, "inf") || foldEq(rest, "infinity") {
		return 2, neg, D, E, 0
	}
	if foldEq(rest, "nan") {
		return 3, neg, D, E, 0
	}
	nfrac := 0
	sawdot := false
	prevDigit := false
	for i < n {
		c := b[i]
		if isDig(c) {
			D = D.Mul(zi(10)).Add(zu(uint64(c - '0')))
			nd++
			if sawdot {
				nfrac++
			}
			prevDigit = true
			i++
		} else if c == '.' {
			if sawdot {
				return 0, neg, D, E, nd
			}
			sawdot = true
			prevDigit = false
			i++
		} else if c == '_' {
			if !prevDigit || i+1 >= n || !isDig(b[i+1]) {
				return 0, neg, D, E, nd
			}
			prevDigit = false
			i++
		} else {
			break
		}
	}
	if nd == 0 {
		return 0, neg, D, E, nd
	}
	E = zi(int64(-nfrac))
	if i == n {
		return 1, neg, D, E, nd
	}
	if b[i] != 'e' && b[i] != 'E' {
		return 0, neg, D, E, nd
	}
	i++
	eneg := false
	if i < n && (b[i] == '+' || b[i] == '-') {
		eneg = b[i] == '-'
		i++
	}
	ev := zi(0)
	ned := 0
	prevDigit = false
	for i < n {
		c := b[i]
		if isDig(c) {
			ev = ev.Mul(zi(10)).Add(zu(uint64(c - '0')))
			ned++
			prevDigit = true
			i++
		} else if c == '_' {
			if !prevDigit || i+1 >= n || !isDig(b[i+1]) {
				return 0, neg, D, E, nd
			}
			prevDigit = false
			i++
		} else {
			return 0, neg, D, E, nd
		}
	}
	if ned == 0 {
		return 0, neg, D, E, nd
	}
	E = zsigned(eneg, ev).Sub(zi(int64(nfrac)))
	return 1, neg, D, E, nd
}

func isSyntaxErr(err error) bool {
	e, ok := err.(*parseSyntaxError)
	return ok && e.Is(strconv.ErrSyntax) && !e.Is(strconv.ErrRange)
}

func isRangeErr(err error) bool {
	e, ok := err.(*parseRangeError)
	return ok && e.Is(strconv.ErrRange) && !e.Is(strconv.ErrSyntax)
}

// c05Check compares (d, err) with the reference reading of the bytes.  L bounds the digit count.
func c05Check(b []byte, d Decimal, err error, nanOp Payload) {
	kind, neg, D, E, nd := refLiteral(b)
	switch kind {
	case 0:
		check(err != nil && isSyntaxErr(err), "C05: a string that is not a literal must be rejected with ErrSyntax")
		reach("C05:invalid")
		return
	case 2:
		check(err == nil && d == inf(neg), "C05: Inf/Infinity must parse to the signed infinity")
		reach("C05:inf")
		return
	case 3:
		check(err == nil && d.IsNaN(), "C05: NaN must parse to a NaN")
		reach("C05:nan")
		return
	}
	if D.IsZero() {
		check(err == nil && d.IsZero() && !d.isSpecial() && d.Signbit() == neg, "C05: a zero literal must give a zero with the literal's sign")
		reach("C05:zero")
		return
	}
	if !verifSymbolic() {
		// native: exact reference (E is concrete here)
		e := E.Int()
		if e > 7000 {
			check(d == inf(neg) && isRangeErr(err), "C05: huge literal must be Inf with ErrRange")
			return
		}
		if e < -7000-nd {
			check(err == nil && d.IsZero() && !d.isSpecial() && d.Signbit() == neg, "C05: tiny literal must be a signed zero")
			return
		}
		isInf, c, ee := refRound(neg, D, e, 0, DefaultRoundingMode)
		checkValue(d, neg, isInf, c, ee, "C05")
		check(isInf == (err != nil) && (err == nil || isRangeErr(err)), "C05: ErrRange exactly when the rounded magnitude exceeds the largest finite Decimal")
		return
	}
	if cutCount() == 0 {
		// early exit: only correct far outside the range (D >= 1 has at most nd digits)
		c05Early(d, err, neg, D, E, nd)
		return
	}
	check(cutCount() == 1, "C05: a literal must be rounded once")
	check(cutN(0).Eq(D) && zi(int64(cutExp(0))).Eq(E.Add(zi(exponentBias))) && cutT(0) == 0 && cutNeg(0) == neg && cutMode(0) == DefaultRoundingMode,
		"C05: the literal's exact value does not reach the rounding kernel")
	check(d == packCut(0), "C05: Parse does not return the packed kernel result")
	if cutRExp(0) > maxBiasedExponent {
		check(isRangeErr(err), "C05: overflow must be reported with ErrRange")
	} else {
		check(err == nil, "C05: a finite result must not carry an error")
	}
	reach("C05:number")
}

func ndBytes(n int) []byte {
	b := make([]byte, n)
	for i := 0; i < n; i++ {
		b[i] = nondetU8("b")
	}
	return b
}

// vh_c05_parse: every byte string of length L through Parse (string) and UnmarshalText ([]byte).
func vh_c05_parse(L int, which int) {
	b := ndBytes(L)
	DefaultRoundingMode = ndMode("drm")
	if which == 0 {
		d, err := Parse(string(b))
		observeDec("d", d)
		observeBool("err", err != nil)
		c05Check(b, d, err, payloadOpParse)
		return
	}
	var d Decimal
	orig := ndDecimal("prev")
	d = orig
	err := d.UnmarshalText(b)
	observeDec("d", d)
	observeBool("err", err != nil)
	if err != nil {
		kind, _, _, _, _ := refLiteral(b)
		if kind == 0 {
			check(d == orig, "C05: a failed UnmarshalText modified the receiver")
		}
	}
	if err != nil && !isRangeErr(err) {
		c05Check(b, Decimal{}, err, payloadOpUnmarshalText)
		return
	}
	if err != nil && d == orig {
		// UnmarshalText reports ErrRange without storing the infinity: accepted (the error is the result)
		_, neg, _, _, _ := refLiteral(b)
		d = inf(neg)
	}
	c05Check(b, d, err, payloadOpUnmarshalText)
}

// vh_c05_mustparse: MustParse panics exactly when Parse reports an error.
func vh_c05_mustparse(L int) {
	b := ndBytes(L)
	s := string(b)
	_, err := Parse(s)
	p := expectPanic(func() { MustParse(s) })
	check(p == (err != nil), "C05: MustParse must panic exactly when Parse returns an error")
	reach("C05:mustparse")
}

// vh_c05_digits: digit-heavy literals: nd digits, a '.' after the first `dot` digits (dot < 0: none),
// followed by the exponent suffix e<sign><3 symbolic digits> when suffix != 0.
func vh_c05_digits(nd, dot, suffix int) {
	var b []byte
	for i := 0; i < nd; i++ {
		if i == dot {
			b = append(b, '.')
		}
		c := nondetU8("d")
		assume(c >= '0' && c <= '9')
		b = append(b, c)
	}
	if suffix != 0 {
		b = append(b, 'e')
		if suffix < 0 {
			b = append(b, '-')
		}
		for i := 0; i < 4; i++ {
			c := nondetU8("x")
			assume(c >= '0' && c <= '9')
			b = append(b, c)
		}
	}
	DefaultRoundingMode = ndMode("drm")
	d, err := Parse(string(b))
	observeDec("d", d)
	observeBool("err", err != nil)
	c05Long(b, d, err, nd)
}

// c05Long: like c05Check for literals whose digits may exceed the accumulator (sticky flag allowed).
func c05Long(b []byte, d Decimal, err error, nd int) {
	kind, neg, D, E, _ := refLiteral(b)
	check(kind == 1, "C05: harness literal is not a number")
	if D.IsZero() {
		check(err == nil && d.IsZero() && !d.isSpecial() && d.Signbit() == neg, "C05: a zero literal must give a zero with the literal's sign")
		reach("C05:zero")
		return
	}
	if !verifSymbolic() {
		isInf, c, ee := refRound(neg, D, E.Int(), 0, DefaultRoundingMode)
		checkValue(d, neg, isInf, c, ee, "C05")
		check(isInf == (err != nil) && (err == nil || isRangeErr(err)), "C05: ErrRange exactly when the rounded magnitude exceeds the largest finite Decimal")
		return
	}
	if cutCount() == 0 {
		c05Early(d, err, neg, D, E, nd)
		reach("C05:earlyexit")
		return
	}
	check(cutCount() == 1, "C05: a literal must be rounded once")
	// (N + t*eps) x 10^(cutExp-6176) == D x 10^E  with a concrete exponent difference
	k := concretize(int(cutExp(0)) - exponentBias - E.Int())
	checkDenotes(zsigned(neg, D), cutN(0), cutT(0), cutNeg(0), k, "C05")
	check(cutMode(0) == DefaultRoundingMode, "C05: literals must be rounded with DefaultRoundingMode")
	check(d == packCut(0), "C05: Parse does not return the packed kernel result")
	if cutRExp(0) > maxBiasedExponent {
		check(isRangeErr(err), "C05: overflow must be reported with ErrRange")
	} else {
		check(err == nil, "C05: a finite result must not carry an error")
	}
	reach("C05:long")
}

// ---------------------------------------------------------------- fmt.Scanner
// verifScanState is a minimal fmt.ScanState over a byte buffer (ASCII), following the documented
// contract of the interface: ReadRune/UnreadRune, SkipSpace, Token(skipSpace, f) returning the
// longest prefix whose runes satisfy f.
type verifScanState struct {
	buf []byte
	pos int
}

type verifEOF struct{}

func (verifEOF) Error() string { return "EOF" }

var verifEOFValue error = verifEOF{}

func (s *verifScanState) ReadRune() (rune, int, error) {
	if s.pos >= len(s.buf) {
		return 0, 0, verifEOFValue
	}
	c := s.buf[s.pos]
	s.pos++
	return rune(c), 1, nil
}

func (s *verifScanState) UnreadRune() error {
	if s.pos > 0 {
		s.pos--
	}
	return nil
}

func (s *verifScanState) SkipSpace() {
	for s.pos < len(s.buf) && (s.buf[s.pos] == ' ' || s.buf[s.pos] == '\t' || s.buf[s.pos] == '\n' || s.buf[s.pos] == '\r') {
		s.pos++
	}
}

func (s *verifScanState) Token(skipSpace bool, f func(rune) bool) ([]byte, error) {
	if skipSpace {
		s.SkipSpace()
	}
	start := s.pos
	for s.pos < len(s.buf) && f(rune(s.buf[s.pos])) {
		s.pos++
	}
	return s.buf[start:s.pos], nil
}

func (s *verifScanState) Width() (int, bool)         { return 0, false }
func (s *verifScanState) Read(b []byte) (int, error) { return 0, verifEOFValue }

// vh_c05_scan: Scan over every ASCII string of length L (verb 'v'): for numerals, NaN and Inf (first
// three letters) it must return what the reference reading of the consumed token gives.
func vh_c05_scan(L int) {
	b := ndBytes(L)
	for i := 0; i < L; i++ {
		assume(b[i] < 128 && b[i] != ' ' && b[i] != '\t' && b[i] != '\n' && b[i] != '\r')
	}
	DefaultRoundingMode = ndMode("drm")
	st := &verifScanState{buf: b}
	d := ndDecimal("prev")
	orig := d
	err := d.Scan(st, 'v')
	observeBool("err", err != nil)
	consumed := b[:st.pos]
	kind, neg, D, E, nd := refLiteral(consumed)
	if err != nil {
		check(d == orig, "C05: a failed Scan modified the receiver")
		// never an error for a complete well-formed numeral that was consumed entirely
		if st.pos == L && kind == 1 && !isRangeErr(err) {
			check(false, "C05: Scan rejected a well-formed numeral")
		}
		reach("C05:scanerr")
		return
	}
	// success: the consumed text (sign + token, or the 3-letter special) must be a literal with this value
	if kind == 2 || (st.pos >= 3 && foldEq(consumed[st.pos-3:], "inf")) {
		check(d.isInf() && !d.IsNaN(), "C05: Scan of Inf")
		reach("C05:scaninf")
		return
	}
	if kind == 3 || (st.pos >= 3 && foldEq(consumed[st.pos-3:], "nan")) {
		check(d.IsNaN(), "C05: Scan of NaN")
		reach("C05:scannan")
		return
	}
	check(kind == 1, "C05: Scan accepted text that is not a numeral")
	if kind != 1 {
		return
	}
	if D.IsZero() {
		check(d.IsZero() && !d.isSpecial() && d.Signbit() == neg, "C05: Scan of a zero numeral")
		reach("C05:scanzero")
		return
	}
	if !verifSymbolic() {
		isInf, c, ee := refRound(neg, D, E.Int(), 0, DefaultRoundingMode)
		checkValue(d, neg, isInf, c, ee, "C05: Scan")
		return
	}
	if cutCount() == 0 {
		check(err == nil && d.IsZero() && !d.isSpecial() && d.Signbit() == neg && E.Le(zi(int64(-6177-nd))), "C05: Scan early zero exit")
		return
	}
	check(cutN(0).Eq(D) && zi(int64(cutExp(0))).Eq(E.Add(zi(exponentBias))) && cutT(0) == 0 && cutNeg(0) == neg, "C05: Scan does not hand the numeral's exact value to the rounding kernel")
	check(d == packCut(0), "C05: Scan does not return the packed kernel result")
	reach("C05:scannum")
}


// c05Early: the parser answered without rounding.  An infinity is right iff D x 10^E exceeds the largest
// finite Decimal, a zero iff D x 10^E < 10^-6177 (D >= 1 has at most nd digits).
func c05Early(d Decimal, err error, neg bool, D, E Z, nd int) {
	if d.isInf() {
		check(d == inf(neg) && isRangeErr(err), "C05: early overflow exit must give the signed infinity with ErrRange")
		if E.Ge(zi(6146)) {
			reach("C05:earlyinf")
			return
		}
		j := concretize(E.Int() - 6111)
		check(j >= 1 && j <= 40 && D.Mul(zpow10(j)).Gt(zMAX()), "C05: early overflow exit taken for a literal that is finite")
		reach("C05:earlyinf")
		return
	}
	check(err == nil && d.IsZero() && !d.isSpecial() && d.Signbit() == neg, "C05: early exit must give a signed zero")
	if E.Le(zi(int64(-6177 - nd))) {
		reach("C05:earlyzero")
		return
	}
	k := concretize(-6177 - E.Int())
	check(k >= 1 && k <= 60 && D.Lt(zpow10(k)), "C05: early zero exit taken for a literal that may round to a non-zero value")
	reach("C05:earlyzero")
}
