package decimal128

import "math/big"

// C10: integer and rational conversions are exact, truncating or saturating as stated.
// math/big is modelled as exact integers (engine/intrinsics.py); natively the real package runs.

func zToBig(z Z) *big.Int { return new(big.Int).Set(z.b()) }
func bigToZ(i *big.Int) Z { return Z{new(big.Int).Set(i)} }
func ratNum(r *big.Rat) Z { return Z{new(big.Int).Set(r.Num())} }
func ratDen(r *big.Rat) Z { return Z{new(big.Int).Set(r.Denom())} }

// truncated integer part of sig x 10^e (e concrete), as a non-negative Z
func truncPart(N Z, e int) Z {
	if e >= 0 {
		return N.Mul(zpow10(e))
	}
	// floor(N / 10^k) digit by digit (floor(floor(x/10)/10) == floor(x/100)); the solvers prefer the chain
	r := N
	for i := 0; i < -e; i++ {
		r = r.Div(zi(10))
	}
	return r
}

// vh_c10_fixed: which: 0 Int64, 1 Int32, 2 Uint64, 3 Uint32.  e: concrete unbiased exponent in
// -36..40, or 100: every exponent below -36, or 101: every exponent above 40.
func vh_c10_fixed(which, e int) {
	loopBound(7000)
	d := ndFinite("d")
	sig, exp := d.decompose()
	N := z128(sig)
	neg := d.Signbit()
	var T Z
	switch {
	case e == 100:
		assume(int(exp)-exponentBias < -36)
		T = zi(0)
	case e == 101:
		assume(int(exp)-exponentBias > 40 && !N.IsZero())
		// N x 10^41 or more is far beyond every fixed-width type (zero coefficients: concrete exponents)
		T = zpow10(41)
	default:
		assume(int(exp)-exponentBias == e)
		T = truncPart(N, e)
	}
	V := zsigned(neg, T) // the integer part, signed
	var lo, hi Z
	var got Z
	var ok bool
	switch which {
	case 0:
		r, o := d.Int64()
		got, ok, lo, hi = zi(r), o, zpow2(63).Neg(), zpow2(63).Sub(zi(1))
		observe("r", uint64(r))
	case 1:
		r, o := d.Int32()
		got, ok, lo, hi = zi(int64(r)), o, zpow2(31).Neg(), zpow2(31).Sub(zi(1))
		observe("r", uint64(r))
	case 2:
		r, o := d.Uint64()
		got, ok, lo, hi = zu(r), o, zi(0), zpow2(64).Sub(zi(1))
		observe("r", r)
	default:
		r, o := d.Uint32()
		got, ok, lo, hi = zu(uint64(r)), o, zi(0), zpow2(32).Sub(zi(1))
		observe("r", uint64(r))
	}
	observeBool("ok", ok)
	fits := V.Ge(lo) && V.Le(hi)
	check(ok == fits, "C10: ok must be true exactly when the truncated integer fits the type")
	if fits {
		check(got.Eq(V), "C10: fixed-width conversion is not the integer part truncated toward zero")
		reach("C10:fits")
	} else if V.Lt(lo) {
		check(got.Eq(lo), "C10: out-of-range negative value must saturate at the lower bound")
		reach("C10:satlow")
	} else {
		check(got.Eq(hi), "C10: out-of-range positive value must saturate at the upper bound")
		reach("C10:sathigh")
	}
}

func vh_c10_fixed_special(which, class int) {
	d := ndClass("d", class)
	if class == 3 {
		check(expectPanic(func() {
			switch which {
			case 0:
				d.Int64()
			case 1:
				d.Int32()
			case 2:
				d.Uint64()
			default:
				d.Uint32()
			}
		}), "C10: fixed-width conversion of NaN must panic")
		reach("C10:nanpanic")
		return
	}
	neg := class == 2
	switch which {
	case 0:
		r, ok := d.Int64()
		check(!ok && ((neg && r == -1<<63) || (!neg && r == 1<<63-1)), "C10: Int64 of an infinity must saturate")
	case 1:
		r, ok := d.Int32()
		check(!ok && ((neg && r == -1<<31) || (!neg && r == 1<<31-1)), "C10: Int32 of an infinity must saturate")
	case 2:
		r, ok := d.Uint64()
		check(!ok && ((neg && r == 0) || (!neg && r == 1<<64-1)), "C10: Uint64 of an infinity must saturate")
	default:
		r, ok := d.Uint32()
		check(!ok && ((neg && r == 0) || (!neg && r == 1<<32-1)), "C10: Uint32 of an infinity must saturate")
	}
	reach("C10:infsat")
}

func vh_c10_from() {
	i64 := nondetI64("i64")
	i32 := nondetI32("i32")
	u64 := nondetU64("u64")
	u32 := nondetU32("u32")
	a, b, c, e := FromInt64(i64), FromInt32(i32), FromUint64(u64), FromUint32(u32)
	observeDec("a", a)
	observeDec("c", c)
	checkValue(a, i64 < 0, false, zi(i64).Abs(), 0, "C10: FromInt64")
	checkValue(b, i32 < 0, false, zi(int64(i32)).Abs(), 0, "C10: FromInt32")
	checkValue(c, false, false, zu(u64), 0, "C10: FromUint64")
	checkValue(e, false, false, zu(uint64(u32)), 0, "C10: FromUint32")
	reach("C10:from")
}

// vh_c10_int: Decimal.Int for a concrete exponent e (or regions 100 / 101 as above), with a caller
// supplied *big.Int holding an arbitrary previous value (reuse) or nil.
func vh_c10_int(e int, reuse int) {
	d := ndFinite("d")
	sig, exp := d.decompose()
	N := z128(sig)
	var want Z
	switch {
	case e == 100:
		assume(int(exp)-exponentBias < -36)
		want = zi(0)
	default:
		assume(int(exp)-exponentBias == e)
		want = zsigned(d.Signbit(), truncPart(N, e))
	}
	var arg *big.Int
	if reuse != 0 {
		arg = zToBig(zi(nondetI64("old")))
	}
	r := d.Int(arg)
	check(r != nil, "C10: Int returned nil")
	if reuse != 0 {
		check(r == arg, "C10: Int must store the result in the supplied big.Int")
	}
	check(bigToZ(r).Eq(want), "C10: Int is not the integer part truncated toward zero")
	reach("C10:int")
}

// vh_c10_rat: Decimal.Rat denotes exactly d (e concrete).
func vh_c10_rat(e int) {
	d := ndFinite("d")
	sig, exp := d.decompose()
	N := zsigned(d.Signbit(), z128(sig))
	assume(int(exp)-exponentBias == e)
	r := d.Rat(nil)
	num, den := ratNum(r), ratDen(r)
	check(den.Gt(zi(0)), "C10: Rat denominator must be positive")
	// num/den == N x 10^e
	if e >= 0 {
		check(num.Eq(N.Mul(zpow10(e)).Mul(den)), "C10: Rat does not denote d exactly")
	} else {
		check(num.Mul(zpow10(-e)).Eq(N.Mul(den)), "C10: Rat does not denote d exactly")
	}
	reach("C10:rat")
}

// vh_c10_fromint: FromInt of an arbitrary integer below 2^bits (either sign): the rounding kernel
// must receive the integer exactly (sticky convention) and the result is its packed output.
func vh_c10_fromint(bits int) {
	m := nondetZ("m", bits)
	neg := nondetBool("neg")
	DefaultRoundingMode = ndMode("drm")
	i := zToBig(zsigned(neg, m))
	res := FromInt(i)
	observeDec("res", res)
	check(bigToZ(i).Eq(zsigned(neg, m)), "C10: FromInt modified its argument")
	if !verifSymbolic() {
		if m.IsZero() {
			check(res == zero(false), "C10: FromInt(0) must be +0")
			return
		}
		isInf, c, e := refRound(neg, m, 0, 0, DefaultRoundingMode)
		checkValue(res, neg, isInf, c, e, "C10: FromInt")
		return
	}
	if m.IsZero() {
		check(res == zero(false) && cutCount() == 0, "C10: FromInt(0) must be +0")
		reach("C10:fromint0")
		return
	}
	check(cutCount() == 1, "C10: FromInt must round exactly once")
	if cutCount() != 1 {
		return
	}
	k := concretize(int(cutExp(0)) - exponentBias)
	checkDenotes(zsigned(neg, m), cutN(0), cutT(0), cutNeg(0), k, "C10: FromInt")
	check(cutMode(0) == DefaultRoundingMode, "C10: FromInt must round with DefaultRoundingMode")
	check(res == packCut(0), "C10: FromInt does not return the packed kernel result")
	reach("C10:fromint")
}
