package decimal128

// Native float64 reference table for C15 (run at check time; the symbolic harness takes the
// expected classes as concrete arguments).

import (
	"fmt"
	"math"
	"os"
	"testing"
)

func fpClass(f float64) int {
	switch {
	case math.IsNaN(f):
		return 0
	case math.IsInf(f, 1):
		return 1
	case math.IsInf(f, -1):
		return 2
	case f == 0 && !math.Signbit(f):
		return 3
	case f == 0:
		return 4
	}
	return 5
}

func fpSmallInt(f float64) int {
	if math.IsNaN(f) || math.IsInf(f, 0) || f == 0 {
		return 99
	}
	if f == math.Trunc(f) && math.Abs(f) <= 10 {
		return int(f)
	}
	return 99
}

func TestVerifFPTable(t *testing.T) {
	if os.Getenv("VERIF_FPTABLE") == "" {
		t.Skip("VERIF_FPTABLE not set")
	}
	negz := math.Copysign(0, -1)
	reps := []float64{math.NaN(), math.Inf(1), math.Inf(-1), 0, negz, 1.5, -1.5}
	for i, x := range reps {
		for j, y := range reps {
			fmt.Printf("VERIF-FP bin 0 %d %d %d\n", i, j, fpClass(x+y))
			fmt.Printf("VERIF-FP bin 1 %d %d %d\n", i, j, fpClass(x-y))
			fmt.Printf("VERIF-FP bin 2 %d %d %d\n", i, j, fpClass(x*y))
			fmt.Printf("VERIF-FP bin 3 %d %d %d\n", i, j, fpClass(x/y))
		}
	}
	xs := []float64{math.NaN(), math.Inf(1), math.Inf(-1), 0, negz, 1, -1, 2.5, -2.5, 0.5, -0.5}
	ys := []float64{math.NaN(), math.Inf(1), math.Inf(-1), 0, negz, 1, -1, 3, -3, 2, -2, 0.5, -0.5}
	for i, x := range xs {
		for j, y := range ys {
			r := math.Pow(x, y)
			c := fpClass(r)
			if c == 5 && fpSmallInt(r) == 99 {
				c = 6
			}
			fmt.Printf("VERIF-FP pow %d %d %d %d\n", i, j, c, fpSmallInt(r))
		}
	}
	fns := []func(float64) float64{math.Sqrt, math.Cbrt, math.Exp, math.Exp2, func(x float64) float64 { return math.Pow(10, x) }, math.Expm1, math.Log, math.Log2, math.Log10, math.Log1p}
	for k, f := range fns {
		for i, x := range reps {
			r := f(x)
			fmt.Printf("VERIF-FP un %d %d %d %d\n", k, i, fpClass(r), fpSmallInt(r))
		}
	}
}
