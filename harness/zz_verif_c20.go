package decimal128

// C20: totality and purity of the entry points that the executor can encode completely.
// Every harness of every property already carries the implicit obligations "no panic, no out-of-range
// index, no nil dereference, loop bound not exceeded" and the executor flags any store to a package
// variable made by library code.  This file adds the remaining cheap entry points with fully symbolic
// arguments and the documented panics.

func vh_c20_simple() {
	d, o := ndDecimal("d"), ndDecimal("o")
	sign := nondetInt("sign")
	_ = Abs(d)
	_ = d.Neg()
	_ = d.IsNaN()
	_ = d.IsInf(sign)
	_ = d.IsZero()
	_ = d.Signbit()
	_ = Inf(sign)
	_ = NaN()
	_ = o
	if d.IsNaN() {
		check(expectPanic(func() { d.Sign() }), "C20: Sign(NaN) is documented to panic")
		check(!expectPanic(func() { d.Payload() }), "C20: Payload(NaN) must not panic")
		_ = d.Payload().String()
	} else {
		check(!expectPanic(func() { d.Sign() }), "C20: Sign of a non-NaN must not panic")
		check(expectPanic(func() { d.Payload() }), "C20: Payload of a non-NaN is documented to panic")
	}
	if d.isSpecial() {
		check(expectPanic(func() { d.Int(nil) }), "C20: Int of NaN/Inf is documented to panic")
		check(expectPanic(func() { d.Rat(nil) }), "C20: Rat of NaN/Inf is documented to panic")
	}
	m := RoundingMode(nondetU8("m"))
	_ = m.String()
	p := Payload(nondetU64("p"))
	_ = p.String()
	reach("C20:simple")
}

// vh_c20_roundany: Round/Ceil/Floor with every argument symbolic (no region assumptions).
func vh_c20_roundany(fn int) {
	d := ndDecimal("d")
	dp := nondetInt("dp")
	mode := RoundingMode(nondetU8("mode")) // also undefined modes
	_ = c08Call(fn, d, dp, mode)
	reach("C20:roundany")
}

// vh_c20_cmpany: comparisons with both operands completely symbolic.
func vh_c20_cmpany() {
	d, o := ndDecimal("d"), ndDecimal("o")
	_ = d.Cmp(o)
	_ = d.CmpAbs(o)
	_ = Min(d, o)
	_ = Max(d, o)
	reach("C20:cmpany")
}
