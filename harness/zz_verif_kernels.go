package decimal128

// Summaries (contracts) of the multi-limb integer kernels in int.go, written over mathematical
// integers, plus one lemma harness per kernel that proves  real body == summary  for all limb
// values.  Callers of a kernel are executed against the summary (assume-guarantee); the lemma is
// re-proved from the current source on every run, so a changed kernel fails its lemma.

func nd128(name string) uint128 { return uint128{nondetU64(name + "0"), nondetU64(name + "1")} }
func nd192(name string) uint192 {
	return uint192{nondetU64(name + "0"), nondetU64(name + "1"), nondetU64(name + "2")}
}
func nd256(name string) uint256 {
	return uint256{nondetU64(name + "0"), nondetU64(name + "1"), nondetU64(name + "2"), nondetU64(name + "3")}
}
func nd384(name string) uint384 {
	return uint384{nondetU64(name + "0"), nondetU64(name + "1"), nondetU64(name + "2"), nondetU64(name + "3"), nondetU64(name + "4"), nondetU64(name + "5")}
}

func zcmp(a, b Z) int {
	if a.Eq(b) {
		return 0
	}
	if a.Lt(b) {
		return -1
	}
	return 1
}

// zlog10 is floor(log10(z)) for z > 0 and 0 for z == 0 (intercepted symbolically: case split).
func zlog10(z Z) int {
	r := 0
	for k := 1; k <= 120; k++ {
		if z.Ge(zpow10(k)) {
			r = k
		}
	}
	return r
}

// ---------------------------------------------------------------- uint128
func sum_uint128_add(n, o uint128) uint192     { return z128(n).Add(z128(o)).To192() }
func sum_uint128_add64(n uint128, o uint64) uint128 { return z128(n).Add(zu(o)).To128() }
func sum_uint128_cmp(n, o uint128) int         { return zcmp(z128(n), z128(o)) }
func sum_uint128_div(n, o uint128) (uint128, uint128) {
	zo := z128(o)
	if zo.IsZero() {
		panic("division by zero")
	}
	zn := z128(n)
	return zn.Div(zo).To128(), zn.Mod(zo).To128()
}
func sum_uint128_div10(n uint128) (uint128, uint64) {
	z := z128(n)
	return z.Div(zi(10)).To128(), z.Mod(zi(10)).U64()
}
func sum_uint128_div100(n uint128) (uint128, uint64) {
	z := z128(n)
	return z.Div(zi(100)).To128(), z.Mod(zi(100)).U64()
}
func sum_uint128_div1000(n uint128) (uint128, uint64) {
	z := z128(n)
	return z.Div(zi(1000)).To128(), z.Mod(zi(1000)).U64()
}
func sum_uint128_div10000(n uint128) (uint128, uint64) {
	z := z128(n)
	return z.Div(zi(10000)).To128(), z.Mod(zi(10000)).U64()
}
func sum_uint128_div1e8(n uint128) (uint128, uint64) {
	z := z128(n)
	return z.Div(zi(100000000)).To128(), z.Mod(zi(100000000)).U64()
}
func sum_uint128_div1e19(n uint128) (uint128, uint64) {
	z := z128(n)
	return z.Div(zpow10(19)).To128(), z.Mod(zpow10(19)).U64()
}
func sum_uint128_log10(n uint128) int { return zlog10(z128(n)) }
func sum_uint128_lsh(n uint128, o uint) uint128 {
	if o >= 128 {
		return uint128{}
	}
	return z128(n).Mul(zpow2(int(o))).To128()
}
func sum_uint128_rsh(n uint128, o uint) uint128 {
	if o >= 128 {
		return uint128{}
	}
	return z128(n).Div(zpow2(int(o))).To128()
}
func sum_uint128_mul(n, o uint128) uint256        { return z128(n).Mul(z128(o)).To256() }
func sum_uint128_mul1e38(n uint128) uint256       { return z128(n).Mul(zpow10(38)).To256() }
func sum_uint128_mul64(n uint128, o uint64) uint128 { return z128(n).Mul(zu(o)).To128() }
func sum_uint128_sub(n, o uint128) (uint128, uint) {
	a, b := z128(n), z128(o)
	var brw uint
	if a.Lt(b) {
		brw = 1
	}
	return a.Sub(b).To128(), brw
}
func sum_uint128_sub64(n uint128, o uint64) uint128 { return z128(n).Sub(zu(o)).To128() }
func sum_uint128_twos(n uint128) uint128          { return z128(n).Neg().To128() }

func vh_lemma_uint128_add() {
	n, o := nd128("n"), nd128("o")
	check(n.add(o) == sum_uint128_add(n, o), "uint128.add differs from its contract")
}
func vh_lemma_uint128_add64() {
	n, o := nd128("n"), nondetU64("o")
	check(n.add64(o) == sum_uint128_add64(n, o), "uint128.add64 differs from its contract")
}
func vh_lemma_uint128_cmp() {
	n, o := nd128("n"), nd128("o")
	check(n.cmp(o) == sum_uint128_cmp(n, o), "uint128.cmp differs from its contract")
}
func vh_lemma_uint128_div(lz int) {
	n, o := nd128("n"), nd128("o")
	zo := z128(o)
	if zo.IsZero() {
		check(expectPanic(func() { n.div(o) }), "uint128.div by zero does not panic")
		return
	}
	// case split on the divisor's size class (the real code shifts by the leading zero count)
	if lz < 0 {
		assume(o[1] == 0)
	} else {
		assume(o[1] != 0 && zo.Ge(zpow2(127-lz)) && zo.Lt(zpow2(128-lz)))
	}
	q, r := n.div(o)
	sq, sr := sum_uint128_div(n, o)
	check(q == sq && r == sr, "uint128.div differs from its contract")
}
func vh_lemma_uint128_div10() {
	n := nd128("n")
	q, r := n.div10()
	sq, sr := sum_uint128_div10(n)
	check(q == sq && r == sr, "uint128.div10 differs from its contract")
}
func vh_lemma_uint128_div100() {
	n := nd128("n")
	q, r := n.div100()
	sq, sr := sum_uint128_div100(n)
	check(q == sq && r == sr, "uint128.div100 differs from its contract")
}
func vh_lemma_uint128_div1000() {
	n := nd128("n")
	q, r := n.div1000()
	sq, sr := sum_uint128_div1000(n)
	check(q == sq && r == sr, "uint128.div1000 differs from its contract")
}
func vh_lemma_uint128_div10000() {
	n := nd128("n")
	q, r := n.div10000()
	sq, sr := sum_uint128_div10000(n)
	check(q == sq && r == sr, "uint128.div10000 differs from its contract")
}
func vh_lemma_uint128_div1e8() {
	n := nd128("n")
	q, r := n.div1e8()
	sq, sr := sum_uint128_div1e8(n)
	check(q == sq && r == sr, "uint128.div1e8 differs from its contract")
}
func vh_lemma_uint128_div1e19() {
	n := nd128("n")
	q, r := n.div1e19()
	sq, sr := sum_uint128_div1e19(n)
	check(q == sq && r == sr, "uint128.div1e19 differs from its contract")
}
func vh_lemma_uint128_log10() {
	n := nd128("n")
	check(n.log10() == sum_uint128_log10(n), "uint128.log10 differs from its contract")
}
func vh_lemma_uint128_lsh(o int) {
	n := nd128("n")
	check(n.lsh(uint(o)) == sum_uint128_lsh(n, uint(o)), "uint128.lsh differs from its contract")
}
func vh_lemma_uint128_rsh(o int) {
	n := nd128("n")
	check(n.rsh(uint(o)) == sum_uint128_rsh(n, uint(o)), "uint128.rsh differs from its contract")
}
func vh_lemma_uint128_mul() {
	n, o := nd128("n"), nd128("o")
	check(n.mul(o) == sum_uint128_mul(n, o), "uint128.mul differs from its contract")
}
func vh_lemma_uint128_mul1e38() {
	n := nd128("n")
	check(n.mul1e38() == sum_uint128_mul1e38(n), "uint128.mul1e38 differs from its contract")
}
func vh_lemma_uint128_mul64() {
	n, o := nd128("n"), nondetU64("o")
	check(n.mul64(o) == sum_uint128_mul64(n, o), "uint128.mul64 differs from its contract")
}
func vh_lemma_uint128_sub() {
	n, o := nd128("n"), nd128("o")
	r, b := n.sub(o)
	sr, sb := sum_uint128_sub(n, o)
	check(r == sr && b == sb, "uint128.sub differs from its contract")
}
func vh_lemma_uint128_sub64() {
	n, o := nd128("n"), nondetU64("o")
	check(n.sub64(o) == sum_uint128_sub64(n, o), "uint128.sub64 differs from its contract")
}
func vh_lemma_uint128_twos() {
	n := nd128("n")
	check(n.twos() == sum_uint128_twos(n), "uint128.twos differs from its contract")
}

// ---------------------------------------------------------------- uint192
func sum_uint192_add(n, o uint192) uint256         { return z192(n).Add(z192(o)).To256() }
func sum_uint192_add64(n uint192, o uint64) uint192 { return z192(n).Add(zu(o)).To192() }
func sum_uint192_cmp(n, o uint192) int             { return zcmp(z192(n), z192(o)) }
func sum_uint192_div(n, o uint192) (uint192, uint192) {
	zo := z192(o)
	if zo.IsZero() {
		panic("division by zero")
	}
	zn := z192(n)
	return zn.Div(zo).To192(), zn.Mod(zo).To192()
}
func sum_uint192_div10(n uint192) (uint192, uint64) {
	z := z192(n)
	return z.Div(zi(10)).To192(), z.Mod(zi(10)).U64()
}
func sum_uint192_div10000(n uint192) (uint192, uint64) {
	z := z192(n)
	return z.Div(zi(10000)).To192(), z.Mod(zi(10000)).U64()
}
func sum_uint192_div1e8(n uint192) (uint192, uint64) {
	z := z192(n)
	return z.Div(zi(100000000)).To192(), z.Mod(zi(100000000)).U64()
}
func sum_uint192_div1e19(n uint192) (uint192, uint64) {
	z := z192(n)
	return z.Div(zpow10(19)).To192(), z.Mod(zpow10(19)).U64()
}
func sum_uint192_log10(n uint192) int { return zlog10(z192(n)) }
func sum_uint192_lsh(n uint192, o uint) uint192 {
	if o >= 192 {
		return uint192{}
	}
	return z192(n).Mul(zpow2(int(o))).To192()
}
func sum_uint192_rsh(n uint192, o uint) uint192 {
	if o >= 192 {
		return uint192{}
	}
	return z192(n).Div(zpow2(int(o))).To192()
}
func sum_uint192_mul(n, o uint192) uint384         { return z192(n).Mul(z192(o)).To384() }
func sum_uint192_mul64(n uint192, o uint64) uint192 { return z192(n).Mul(zu(o)).To192() }
func sum_uint192_sub(n, o uint192) (uint192, uint) {
	a, b := z192(n), z192(o)
	var brw uint
	if a.Lt(b) {
		brw = 1
	}
	return a.Sub(b).To192(), brw
}
func sum_uint192_sub64(n uint192, o uint64) uint192 { return z192(n).Sub(zu(o)).To192() }
func sum_uint192_twos(n uint192) uint192          { return z192(n).Neg().To192() }

func vh_lemma_uint192_add() {
	n, o := nd192("n"), nd192("o")
	check(n.add(o) == sum_uint192_add(n, o), "uint192.add differs from its contract")
}
func vh_lemma_uint192_add64() {
	n, o := nd192("n"), nondetU64("o")
	check(n.add64(o) == sum_uint192_add64(n, o), "uint192.add64 differs from its contract")
}
func vh_lemma_uint192_cmp() {
	n, o := nd192("n"), nd192("o")
	check(n.cmp(o) == sum_uint192_cmp(n, o), "uint192.cmp differs from its contract")
}
func vh_lemma_uint192_div10() {
	n := nd192("n")
	q, r := n.div10()
	sq, sr := sum_uint192_div10(n)
	check(q == sq && r == sr, "uint192.div10 differs from its contract")
}
func vh_lemma_uint192_div10000() {
	n := nd192("n")
	q, r := n.div10000()
	sq, sr := sum_uint192_div10000(n)
	check(q == sq && r == sr, "uint192.div10000 differs from its contract")
}
func vh_lemma_uint192_div1e8() {
	n := nd192("n")
	q, r := n.div1e8()
	sq, sr := sum_uint192_div1e8(n)
	check(q == sq && r == sr, "uint192.div1e8 differs from its contract")
}
func vh_lemma_uint192_div1e19() {
	n := nd192("n")
	q, r := n.div1e19()
	sq, sr := sum_uint192_div1e19(n)
	check(q == sq && r == sr, "uint192.div1e19 differs from its contract")
}
func vh_lemma_uint192_log10() {
	n := nd192("n")
	check(n.log10() == sum_uint192_log10(n), "uint192.log10 differs from its contract")
}
func vh_lemma_uint192_lsh(o int) {
	n := nd192("n")
	check(n.lsh(uint(o)) == sum_uint192_lsh(n, uint(o)), "uint192.lsh differs from its contract")
}
func vh_lemma_uint192_rsh(o int) {
	n := nd192("n")
	check(n.rsh(uint(o)) == sum_uint192_rsh(n, uint(o)), "uint192.rsh differs from its contract")
}
func vh_lemma_uint192_mul() {
	n, o := nd192("n"), nd192("o")
	check(n.mul(o) == sum_uint192_mul(n, o), "uint192.mul differs from its contract")
}
func vh_lemma_uint192_mul64() {
	n, o := nd192("n"), nondetU64("o")
	check(n.mul64(o) == sum_uint192_mul64(n, o), "uint192.mul64 differs from its contract")
}
func vh_lemma_uint192_sub() {
	n, o := nd192("n"), nd192("o")
	r, b := n.sub(o)
	sr, sb := sum_uint192_sub(n, o)
	check(r == sr && b == sb, "uint192.sub differs from its contract")
}
func vh_lemma_uint192_sub64() {
	n, o := nd192("n"), nondetU64("o")
	check(n.sub64(o) == sum_uint192_sub64(n, o), "uint192.sub64 differs from its contract")
}
func vh_lemma_uint192_twos() {
	n := nd192("n")
	check(n.twos() == sum_uint192_twos(n), "uint192.twos differs from its contract")
}

// ---------------------------------------------------------------- uint256 / uint384
func sum_uint256_div10(n uint256) (uint256, uint64) {
	z := z256(n)
	return z.Div(zi(10)).To256(), z.Mod(zi(10)).U64()
}
func sum_uint256_div10000(n uint256) (uint256, uint64) {
	z := z256(n)
	return z.Div(zi(10000)).To256(), z.Mod(zi(10000)).U64()
}
func sum_uint256_div1e8(n uint256) (uint256, uint64) {
	z := z256(n)
	return z.Div(zi(100000000)).To256(), z.Mod(zi(100000000)).U64()
}
func sum_uint256_div1e19(n uint256) (uint256, uint64) {
	z := z256(n)
	return z.Div(zpow10(19)).To256(), z.Mod(zpow10(19)).U64()
}
func sum_uint256_lsh(n uint256, o uint) uint256 {
	if o >= 256 {
		return uint256{}
	}
	return z256(n).Mul(zpow2(int(o))).To256()
}
func sum_uint256_rsh(n uint256, o uint) uint256 {
	if o >= 256 {
		return uint256{}
	}
	return z256(n).Div(zpow2(int(o))).To256()
}
func sum_uint256_mul64(n uint256, o uint64) uint256 { return z256(n).Mul(zu(o)).To256() }
func sum_uint384_div10(n uint384) (uint384, uint64) {
	z := z384(n)
	return z.Div(zi(10)).To384(), z.Mod(zi(10)).U64()
}
func sum_uint384_div1e19(n uint384) (uint384, uint64) {
	z := z384(n)
	return z.Div(zpow10(19)).To384(), z.Mod(zpow10(19)).U64()
}

func vh_lemma_uint256_div10() {
	n := nd256("n")
	q, r := n.div10()
	sq, sr := sum_uint256_div10(n)
	check(q == sq && r == sr, "uint256.div10 differs from its contract")
}
func vh_lemma_uint256_div10000() {
	n := nd256("n")
	q, r := n.div10000()
	sq, sr := sum_uint256_div10000(n)
	check(q == sq && r == sr, "uint256.div10000 differs from its contract")
}
func vh_lemma_uint256_div1e8() {
	n := nd256("n")
	q, r := n.div1e8()
	sq, sr := sum_uint256_div1e8(n)
	check(q == sq && r == sr, "uint256.div1e8 differs from its contract")
}
func vh_lemma_uint256_div1e19() {
	n := nd256("n")
	q, r := n.div1e19()
	sq, sr := sum_uint256_div1e19(n)
	check(q == sq && r == sr, "uint256.div1e19 differs from its contract")
}
func vh_lemma_uint256_lsh(o int) {
	n := nd256("n")
	check(n.lsh(uint(o)) == sum_uint256_lsh(n, uint(o)), "uint256.lsh differs from its contract")
}
func vh_lemma_uint256_rsh(o int) {
	n := nd256("n")
	check(n.rsh(uint(o)) == sum_uint256_rsh(n, uint(o)), "uint256.rsh differs from its contract")
}
func vh_lemma_uint256_mul64() {
	n, o := nd256("n"), nondetU64("o")
	check(n.mul64(o) == sum_uint256_mul64(n, o), "uint256.mul64 differs from its contract")
}
func vh_lemma_uint384_div10() {
	n := nd384("n")
	q, r := n.div10()
	sq, sr := sum_uint384_div10(n)
	check(q == sq && r == sr, "uint384.div10 differs from its contract")
}
func vh_lemma_uint384_div1e19() {
	n := nd384("n")
	q, r := n.div1e19()
	sq, sr := sum_uint384_div1e19(n)
	check(q == sq && r == sr, "uint384.div1e19 differs from its contract")
}

// ---------------------------------------------------------------- compose / decompose round trip
// Used by the executor: decompose of a Decimal that was built by compose(neg, sig, exp) yields
// (sig, exp) when 0 <= exp <= 12287 and sig <= 5*2^111-1 (both are obligations at the call).
func vh_lemma_compose() {
	neg := nondetBool("neg")
	sig := nd128("s")
	exp := nondetI16("exp")
	assume(exp >= 0 && exp <= maxBiasedExponent && z128(sig).Le(zMAX()))
	d := compose(neg, sig, exp)
	s2, e2 := d.decompose()
	check(s2 == sig && e2 == exp, "compose/decompose round trip broken")
	check(d.Signbit() == neg && !d.isSpecial() && !d.IsNaN() && !d.isInf(), "compose produced a wrong sign or a special value")
	check(d.IsZero() == (sig[0]|sig[1] == 0), "IsZero disagrees with the coefficient")
}
