package decimal128

// C14: database/sql Compose / Decompose are exact inverses and Compose is exact-or-error.

func bytesZ(b []byte) Z {
	r := zi(0)
	for i := 0; i < len(b); i++ {
		r = r.Mul(zi(256)).Add(zu(uint64(b[i])))
	}
	return r
}

// vh_c14_decompose: bufcap < 0 means a nil buffer, otherwise make([]byte, buflen, bufcap).
// nb (finite class only): number of significant coefficient bytes 1..16 (0: the coefficient is zero).
func vh_c14_decompose(class, buflen, bufcap, nb int) {
	d := ndClass("d", class)
	if class == 0 {
		nsig, _ := d.decompose()
		if nb == 0 {
			assume(z128(nsig).IsZero())
		} else {
			assume(z128(nsig).Ge(zpow2(8*(nb-1))) && z128(nsig).Lt(zpow2(8*nb)))
		}
	}
	if class == 0 {
		// implied by "not special" (the exponent field of a finite pattern is below 12288); stated so that
		// the interval analysis knows it
		dsig, dx := d.decompose()
		assume(dx >= 0 && dx <= maxBiasedExponent)
		assume(z128(dsig).Le(zMAX()) && dsig[1] <= 0x0002_7fff_ffff_ffff)
	}
	var buf []byte
	if bufcap >= 0 {
		buf = make([]byte, buflen, bufcap)
		for i := 0; i < buflen; i++ {
			buf[i] = nondetU8("buf")
		}
	}
	form, neg, sig, exp := d.Decompose(buf)
	observe("form", uint64(form))
	observe("exp", uint64(uint32(exp)))
	check(neg == d.Signbit(), "C14: Decompose sign differs")
	switch class {
	case 3:
		check(form == 2, "C14: Decompose form of NaN must be 2")
	case 1, 2:
		check(form == 1, "C14: Decompose form of Inf must be 1")
	default:
		check(form == 0, "C14: Decompose form of a finite value must be 0")
		ds, dexp := d.decompose()
		D := z128(ds)
		C := bytesZ(sig)
		if D.IsZero() {
			check(C.IsZero(), "C14: Decompose of zero must denote zero")
		} else {
			check(C.Eq(D) && int(exp) == int(dexp)-exponentBias, "C14: Decompose parts do not denote d exactly")
			check(len(sig) > 0 && sig[0] != 0, "C14: coefficient bytes must not have a leading zero byte")
			if bufcap >= 16 {
				check(cap(sig) <= bufcap, "C14: a sufficient caller buffer must be reused")
			}
		}
	}
	// round trip through the real Compose
	var back Decimal
	err := back.Compose(form, neg, sig, exp)
	check(err == nil, "C14: Compose rejected Decompose's output")
	if class == 3 {
		check(back.IsNaN(), "C14: Compose(Decompose(NaN)) must be NaN")
	} else if class != 0 {
		check(back == inf(class == 2), "C14: Compose(Decompose(Inf)) must be the same infinity")
	} else {
		ds, dexp := d.decompose()
		checkValue(back, d.Signbit(), false, z128(ds), int(dexp)-exponentBias, "C14: Compose(Decompose(d))")
	}
	reach("C14:decompose")
}

// c14Representable: exists k in [-maxdown, 35] with C*10^k integral and <= MAX and emin <= exp-k <= emax
func c14Representable(C Z, exp Z, maxdown int) bool {
	ok := false
	for k := -maxdown; k <= 35; k++ {
		e := exp.Sub(zi(int64(k)))
		inrange := e.Ge(zi(emin)) && e.Le(zi(emax))
		var fits bool
		if k >= 0 {
			fits = C.Mul(zpow10(k)).Le(zMAX())
		} else {
			p := zpow10(-k)
			fits = C.Mod(p).IsZero() && C.Div(p).Le(zMAX())
		}
		if inrange && fits {
			ok = true
		}
	}
	return ok
}

// vh_c14_compose: n coefficient bytes (all symbolic, leading zeros allowed), exponent region:
// 0: -6300..6300 (everything that can matter), 1: below -6300, 2: above 6300 (both down to/up to the int32 limits)
func vh_c14_compose(n int, region int) {
	sig := make([]byte, n)
	for i := 0; i < n; i++ {
		sig[i] = nondetU8("b")
	}
	neg := nondetBool("neg")
	exp := nondetI32("exp")
	switch region {
	case 0:
		assume(exp >= -6300 && exp <= 6300)
	case 1:
		assume(exp < -6300)
	default:
		assume(exp > 6300)
	}
	d := ndDecimal("d")
	orig := d
	err := d.Compose(0, neg, sig, exp)
	observeBool("err", err != nil)
	observeDec("d", d)
	C := bytesZ(sig)
	if C.IsZero() {
		check(err == nil && d.IsZero() && !d.isSpecial() && d.Signbit() == neg, "C14: a zero coefficient must compose to a signed zero")
		reach("C14:composezero")
		return
	}
	maxdown := (n*8*1234)/4096 + 1 // decimal digits of a coefficient of n bytes
	var rep bool
	if region == 0 {
		rep = c14Representable(C, zi(int64(exp)), maxdown)
	} else if region == 1 {
		// exp < -6300: the coefficient would have to lose more than 124 digits; only possible for long coefficients
		rep = c14Representable(C, zi(int64(exp)), maxdown)
	} else {
		rep = false // C >= 1, exp > 6300 > 6111+35
	}
	check((err == nil) == rep, "C14: Compose must succeed exactly when the value is representable")
	if err != nil {
		check(d == orig, "C14: a failed Compose modified the receiver")
		reach("C14:composeerr")
		return
	}
	check(!d.isSpecial() && d.Signbit() == neg, "C14: composed value has the wrong class or sign")
	rs, rexp := d.decompose()
	k := concretize(int(exp) - (int(rexp) - exponentBias))
	if k >= 0 {
		check(k <= 40 && z128(rs).Eq(C.Mul(zpow10(k))), "C14: Compose changed the value")
	} else {
		check(C.Eq(z128(rs).Mul(zpow10(-k))), "C14: Compose changed the value")
	}
	reach("C14:composeok")
}

func vh_c14_forms(form int) {
	d := ndDecimal("d")
	orig := d
	neg := nondetBool("neg")
	exp := nondetI32("exp")
	sig := []byte{nondetU8("b"), nondetU8("b")}
	err := d.Compose(byte(form), neg, sig, exp)
	switch form {
	case 1:
		check(err == nil && d == inf(neg), "C14: form 1 must compose to a signed infinity")
	case 2:
		check(err == nil && d.IsNaN(), "C14: form 2 must compose to NaN")
	default:
		check(err != nil && d == orig, "C14: unknown forms must be errors and leave the receiver alone")
	}
	reach("C14:forms")
}
