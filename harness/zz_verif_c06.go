package decimal128

import "encoding/json"

// C06 / C13: default text and JSON output is the shortest exact representation and round-trips.
//
// refNumeral is an independent reader of the produced bytes:  [-] int [. frac] [ (e|E) (+|-) digits ]
// It returns the mantissa integer, the number of fraction digits, the exponent (as Z), and layout facts.

type numeral struct {
	ok       bool
	neg      bool
	mant     Z   // all mantissa digits as an integer
	nint     int // digits before the point
	nfrac    int // digits after the point
	hasPoint bool
	hasExp   bool
	expNeg   bool
	expSign  bool // an explicit sign is present
	exp      Z
	nexp     int  // exponent digits
	first    byte // first mantissa digit
	last     byte // last mantissa digit
	secondInt byte // second integer digit if any (leading-zero test)
	expByte  byte
	lead     int // leading zero digits of the mantissa (before the first non-zero digit)
	nonzero  bool
}

// refBarePoint: accept "12." (the '#' flag of fmt keeps the decimal point)
var refBarePoint bool

func refNumeral(b []byte) (r numeral) {
	n := len(b)
	i := 0
	r.mant, r.exp = zi(0), zi(0)
	if n == 0 {
		return
	}
	if b[0] == '-' {
		r.neg = true
		i = 1
	}
	start := i
	for i < n && isDig(b[i]) {
		r.mant = r.mant.Mul(zi(10)).Add(zu(uint64(b[i] - '0')))
		if !r.nonzero {
			if b[i] == '0' {
				r.lead++
			} else {
				r.nonzero = true
			}
		}
		if i == start {
			r.first = b[i]
		} else if i == start+1 {
			r.secondInt = b[i]
		}
		r.last = b[i]
		r.nint++
		i++
	}
	if r.nint == 0 {
		return
	}
	if i < n && b[i] == '.' {
		r.hasPoint = true
		i++
		for i < n && isDig(b[i]) {
			r.mant = r.mant.Mul(zi(10)).Add(zu(uint64(b[i] - '0')))
			if !r.nonzero {
				if b[i] == '0' {
					r.lead++
				} else {
					r.nonzero = true
				}
			}
			r.last = b[i]
			r.nfrac++
			i++
		}
		if r.nfrac == 0 && !refBarePoint {
			return
		}
	}
	if i < n && (b[i] == 'e' || b[i] == 'E') {
		r.hasExp = true
		r.expByte = b[i]
		i++
		if i < n && (b[i] == '+' || b[i] == '-') {
			r.expSign = true
			r.expNeg = b[i] == '-'
			i++
		}
		for i < n && isDig(b[i]) {
			r.exp = r.exp.Mul(zi(10)).Add(zu(uint64(b[i] - '0')))
			r.nexp++
			i++
		}
		if r.nexp == 0 {
			return
		}
	}
	r.ok = i == n
	return
}

// checkDenotesText: value(out) == M x 10^ez exactly, where M has exactly n digits and M mod 10 != 0.
// The printed mantissa (without its leading zeros) has t digits: it must be M followed by t-n zeros, and the
// exponents must agree:  mant x 10^(x - nfrac) == M x 10^ez  <=>  mant == M x 10^(t-n)  and  x - nfrac + (t-n) == ez.
func checkDenotesText(out []byte, M Z, n int, ez Z) (r numeral) {
	r = refNumeral(out)
	check(r.ok, "C06: output is not a plain decimal numeral")
	if !r.ok {
		return
	}
	t := r.nint + r.nfrac - r.lead
	k2 := t - n
	check(k2 >= 0, "C06: printed numeral has fewer significant digits than the value")
	if k2 < 0 {
		r.ok = false
		return
	}
	x := zsigned(r.expNeg, r.exp)
	check(k2 <= 6200 && r.mant.Eq(M.Mul(zpow10(k2))), "C06: printed digits are not the coefficient's digits")
	check(x.Sub(zi(int64(r.nfrac))).Add(zi(int64(k2))).Eq(ez), "C06: printed exponent does not match the value")
	return
}

func layoutChecks(r numeral, isJSON bool) {
	if r.nint > 1 {
		check(r.first != '0', "C06: superfluous leading zero")
	}
	if r.hasPoint {
		check(r.last != '0', "C06: superfluous trailing zero in the fraction")
	}
	if r.hasExp {
		check(r.nint == 1 && r.first != '0', "C06: exponent form must be d.ddd with a non-zero leading digit")
		check(r.expSign, "C06: exponent must carry a sign")
		if !isJSON {
			check(r.nexp >= 2, "C06: exponent must have at least two digits")
		}
		check(!r.exp.IsZero() || r.nexp <= 2, "C06: zero exponent written with extra digits")
	}
}

// verifFmtState is a minimal fmt.State (flags, width, precision, output buffer).
type verifFmtState struct {
	buf                             []byte
	wid, prec                       int
	hasWid, hasPrec                 bool
	plus, minus, sharp, space, zero bool
}

func (s *verifFmtState) Write(b []byte) (int, error) {
	s.buf = append(s.buf, b...)
	return len(b), nil
}
func (s *verifFmtState) Width() (int, bool)     { return s.wid, s.hasWid }
func (s *verifFmtState) Precision() (int, bool) { return s.prec, s.hasPrec }
func (s *verifFmtState) Flag(c int) bool {
	switch c {
	case '+':
		return s.plus
	case '-':
		return s.minus
	case '#':
		return s.sharp
	case ' ':
		return s.space
	case '0':
		return s.zero
	}
	return false
}

// c06Render: the default-text entry points.
// which: 0 MarshalText, 1 String, 2 MarshalJSON, 3 Append(nil,d,'g',-1), 4 Append(buf,d,'e',-1), 5 Append(nil,d,'f',-1),
// 6 d.Append(buf,"v"), 7 d.Format(State,'v'), 8 Format(d,'G',-1), 9 Format(d,'E',-1), 10 d.Append(nil,"g")... (same as %g without precision)
func c06Render(which int, d Decimal) (out []byte, err error, eByte byte) {
	eByte = 'e'
	switch which {
	case 0:
		out, err = d.MarshalText()
	case 1:
		out = []byte(d.String())
	case 2:
		out, err = d.MarshalJSON()
	case 3:
		out = Append(nil, d, 'g', -1)
	case 4:
		pre := []byte{'x', 'y'}
		res := Append(pre, d, 'e', -1)
		check(len(res) >= 2 && res[0] == 'x' && res[1] == 'y', "C06: Append must keep the existing contents of the buffer")
		out = res[2:]
	case 5:
		out = Append(nil, d, 'f', -1)
	case 6:
		pre := make([]byte, 1, 80)
		pre[0] = 'x'
		res := d.Append(pre, "v")
		check(len(res) >= 1 && res[0] == 'x', "C06: Decimal.Append must keep the existing contents of the buffer")
		out = res[1:]
	case 7:
		st := &verifFmtState{}
		d.Format(st, 'v')
		out = st.buf
	case 8:
		out = []byte(Format(d, 'G', -1))
		eByte = 'E'
	case 9:
		out = []byte(Format(d, 'E', -1))
		eByte = 'E'
	default:
		out = nil
	}
	return
}

// vh_c06_text: L digits of which z trailing zeros; adj: decimal exponent of the leading digit: a concrete value
// in -8..21, or 100 (every adj below the positional window), 101 (every adj above it).
func vh_c06_text(which, L, z, adj int) {
	sig, N := ndCoefficientLZ(L, z)
	neg := nondetBool("neg")
	lowPos, highPos := -4, 5
	if which == 2 {
		lowPos, highPos = -6, 19
	}
	var exp16 int16
	var e Z
	if adj >= 100 {
		// exponent classes: 100/101 everything below/above the positional window; 102..105 adj in [-9,low), [-99,-10],
		// [-999,-100], [.., -1000]; 106..109 adj in (high,9], [10,99], [100,999], [1000,..]
		lo, hi := -7000, 7000
		switch adj {
		case 100:
			hi = lowPos - 1
		case 101:
			lo = highPos + 1
		case 102:
			lo, hi = -9, lowPos-1
		case 103:
			lo, hi = -99, -10
		case 104:
			lo, hi = -999, -100
		case 105:
			hi = -1000
		case 106:
			lo, hi = highPos+1, 9
		case 107:
			lo, hi = 10, 99
		case 108:
			lo, hi = 100, 999
		case 109:
			lo = 1000
		}
		if hi >= lowPos && hi <= highPos {
			hi = lowPos - 1
		}
		if lo >= lowPos && lo <= highPos {
			lo = highPos + 1
		}
		exp16 = nondetI16("exp")
		a := int(exp16) - exponentBias + L - 1
		assume(exp16 >= 0 && exp16 <= maxBiasedExponent && a >= lo && a <= hi)
		e = zi(int64(exp16) - exponentBias)
	} else {
		ev := adj - (L - 1)
		assume(ev+exponentBias >= 0 && ev+exponentBias <= maxBiasedExponent)
		exp16 = int16(ev + exponentBias)
		e = zi(int64(ev))
	}
	d := compose(neg, sig, exp16)
	out, err, eByte := c06Render(which, d)
	check(err == nil, "C06: marshalling a finite value failed")
	for i := 0; i < len(out) && i < 48; i++ {
		observe("o", uint64(out[i]))
	}
	r := checkDenotesText(out, N.Div(zpow10(z)), L-z, e.Add(zi(int64(z))))
	if !r.ok {
		return
	}
	check(r.neg == neg, "C06: sign of the printed numeral differs")
	layoutChecks(r, which == 2)
	// form selection
	wantExp := adj >= 100 || adj < lowPos || adj > highPos
	if which == 4 || which == 9 {
		wantExp = true
	} else if which == 5 {
		wantExp = false
	}
	check(r.hasExp == wantExp, "C06: positional / exponent form chosen against the documented thresholds")
	if r.hasExp {
		check(r.expByte == eByte, "C06: exponent letter")
	}
	if which == 2 {
		ok, jneg, _, _, _ := refJSONNumber(out)
		check(ok && jneg == neg, "C13: MarshalJSON output is not a JSON number (RFC 8259)")
		reach("C13:marshal")
	}
	reach("C06:text")
	// round trip through the real parser
	var back Decimal
	var perr error
	switch which {
	case 0, 3, 4, 8:
		perr = back.UnmarshalText(out)
	case 2:
		perr = back.UnmarshalJSON(out)
	case 6, 7, 9:
		st := &verifScanState{buf: out}
		perr = back.Scan(st, 'v')
		check(perr != nil || st.pos == len(out), "C06: Scan did not consume the whole numeral")
	default:
		back, perr = Parse(string(out))
	}
	check(perr == nil, "C06: the produced text is rejected by the parser")
	if perr == nil {
		checkValue(back, neg, false, N, e.Int(), "C06: text round trip")
	}
	reach("C06:roundtrip")
}

func vh_c06_special(which, class int) {
	d := ndClass("d", class)
	if class == 0 {
		// zeros of any exponent
		assume(d.IsZero())
	}
	var out []byte
	var err error
	switch which {
	case 0:
		out, err = d.MarshalText()
	case 1:
		out = []byte(d.String())
	default:
		out, err = d.MarshalJSON()
	}
	if class == 0 {
		check(err == nil, "C06: marshalling zero failed")
		r := refNumeral(out)
		check(r.ok && r.mant.IsZero() && r.neg == d.Signbit(), "C06: a zero must print as a (signed) zero numeral")
		var back Decimal
		var perr error
		if which == 2 {
			perr = back.UnmarshalJSON(out)
		} else {
			perr = back.UnmarshalText(out)
		}
		check(perr == nil && back.IsZero() && !back.isSpecial() && back.Signbit() == d.Signbit(), "C06: zero does not round-trip with its sign")
		reach("C06:zero")
		return
	}
	if which == 2 {
		_, isUV := err.(*json.UnsupportedValueError)
		check(err != nil && isUV, "C13: NaN and Inf must fail with *json.UnsupportedValueError")
		reach("C13:unsupported")
		return
	}
	check(err == nil, "C06: marshalling a special value failed")
	switch class {
	case 1:
		check(string(out) == "+Inf", "C06: +Inf must print as +Inf")
	case 2:
		check(string(out) == "-Inf", "C06: -Inf must print as -Inf")
	default:
		check(string(out) == "NaN", "C06: NaN must print as NaN")
	}
	var back Decimal
	perr := back.UnmarshalText(out)
	check(perr == nil && ((class == 3 && back.IsNaN()) || (class != 3 && back == inf(class == 2))), "C06: special value does not round-trip")
	reach("C06:special")
}
