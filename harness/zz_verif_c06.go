package decimal128

import "encoding/json"

// C06 / C13: default text and JSON output is the shortest exact representation and round-trips.
//
// refNumeral is an independent reader of the produced bytes:  [-] int [. frac] [ (e|E) (+|-) digits ]
// It returns the mantissa integer, the number of fraction digits, the exponent (as Z), and layout facts.

type numeral struct {
	ok       bool
	neg      bool
	mant     Z   // all mantissa digits as an integer
	nint     int // digits before the point
	nfrac    int // digits after the point
	hasPoint bool
	hasExp   bool
	expNeg   bool
	expSign  bool // an explicit sign is present
	exp      Z
	nexp     int  // exponent digits
	first    byte // first mantissa digit
	last     byte // last mantissa digit
	secondInt byte // second integer digit if any (leading-zero test)
}

func refNumeral(b []byte) (r numeral) {
	n := len(b)
	i := 0
	r.mant, r.exp = zi(0), zi(0)
	if n == 0 {
		return
	}
	if b[0] == '-' {
		r.neg = true
		i = 1
	}
	start := i
	for i < n && isDig(b[i]) {
		r.mant = r.mant.Mul(zi(10)).Add(zu(uint64(b[i] - '0')))
		if i == start {
			r.first = b[i]
		} else if i == start+1 {
			r.secondInt = b[i]
		}
		r.last = b[i]
		r.nint++
		i++
	}
	if r.nint == 0 {
		return
	}
	if i < n && b[i] == '.' {
		r.hasPoint = true
		i++
		for i < n && isDig(b[i]) {
			r.mant = r.mant.Mul(zi(10)).Add(zu(uint64(b[i] - '0')))
			r.last = b[i]
			r.nfrac++
			i++
		}
		if r.nfrac == 0 {
			return
		}
	}
	if i < n && (b[i] == 'e' || b[i] == 'E') {
		r.hasExp = true
		i++
		if i < n && (b[i] == '+' || b[i] == '-') {
			r.expSign = true
			r.expNeg = b[i] == '-'
			i++
		}
		for i < n && isDig(b[i]) {
			r.exp = r.exp.Mul(zi(10)).Add(zu(uint64(b[i] - '0')))
			r.nexp++
			i++
		}
		if r.nexp == 0 {
			return
		}
	}
	r.ok = i == n
	return
}

// ndCoefficient: a coefficient with exactly L decimal digits (L in 1..35), not above 5*2^111-1.
func ndCoefficient(L int) (uint128, Z) {
	sig := nd128("c")
	N := z128(sig)
	assume(N.Ge(zpow10(L-1)) && N.Lt(zpow10(L)) && N.Le(zMAX()))
	return sig, N
}

// checkDenotesText: value(out) == N x 10^e exactly.  For a symbolic exponent the identity is split into
// the digit part (mantissa times a power of ten equals N) and the exponent part (linear).
func checkDenotesText(out []byte, N Z, L int, e Z) (r numeral) {
	r = refNumeral(out)
	check(r.ok, "C06: output is not a plain decimal numeral")
	if !r.ok {
		return
	}
	m := r.nint + r.nfrac // mantissa digits printed
	// N has exactly L digits.  Printed mantissa has m digits (possibly with leading zeros in positional form).
	// value = mant x 10^(x - nfrac), x = signed exponent (0 if absent)
	x := zsigned(r.expNeg, r.exp)
	if m >= L {
		// positional with leading zeros, or all digits kept plus padding zeros: mant == N x 10^(k), k >= 0
		// find k from the exponents: mant x 10^(x-nfrac) == N x 10^e  ->  x - nfrac + k' ... use k = (e - (x - nfrac)) which must be >= 0
		k := concretize(e.Sub(x).Add(zi(int64(r.nfrac))).Int())
		if k >= 0 {
			check(k <= 6200 && r.mant.Eq(N.Mul(zpow10(k))), "C06: printed numeral does not denote d exactly")
		} else {
			check(r.mant.Mul(zpow10(-k)).Eq(N), "C06: printed numeral does not denote d exactly")
		}
		return
	}
	// fewer digits than L: trailing zeros of N were moved into the exponent: N == mant x 10^(L-m) and exponents agree
	check(N.Eq(r.mant.Mul(zpow10(L-m))), "C06: printed digits are not the coefficient's digits")
	check(x.Sub(zi(int64(r.nfrac))).Eq(e.Add(zi(int64(L-m)))), "C06: printed exponent does not match the value")
	return
}

func layoutChecks(r numeral, isJSON bool) {
	if r.nint > 1 {
		check(r.first != '0', "C06: superfluous leading zero")
	}
	if r.hasPoint {
		check(r.last != '0', "C06: superfluous trailing zero in the fraction")
	}
	if r.hasExp {
		check(r.nint == 1 && r.first != '0', "C06: exponent form must be d.ddd with a non-zero leading digit")
		check(r.expSign, "C06: exponent must carry a sign")
		if !isJSON {
			check(r.nexp >= 2, "C06: exponent must have at least two digits")
		}
		check(!r.exp.IsZero() || r.nexp <= 2, "C06: zero exponent written with extra digits")
	}
}

// vh_c06_text: which: 0 MarshalText, 1 String, 2 MarshalJSON.
// L digits; adj: decimal exponent of the leading digit: a concrete value in -8..21, or 100 (every adj below the
// positional window), 101 (every adj above it).
func vh_c06_text(which, L, adj int) {
	sig, N := ndCoefficient(L)
	neg := nondetBool("neg")
	lowPos, highPos := -4, 5
	if which == 2 {
		lowPos, highPos = -6, 19
	}
	var exp16 int16
	var e Z
	switch adj {
	case 100:
		exp16 = nondetI16("exp")
		assume(exp16 >= 0 && exp16 <= maxBiasedExponent && int(exp16)-exponentBias+L-1 < lowPos)
		e = zi(int64(exp16) - exponentBias)
	case 101:
		exp16 = nondetI16("exp")
		assume(exp16 >= 0 && exp16 <= maxBiasedExponent && int(exp16)-exponentBias+L-1 > highPos)
		e = zi(int64(exp16) - exponentBias)
	default:
		ev := adj - (L - 1)
		assume(ev+exponentBias >= 0 && ev+exponentBias <= maxBiasedExponent)
		exp16 = int16(ev + exponentBias)
		e = zi(int64(ev))
	}
	d := compose(neg, sig, exp16)
	var out []byte
	var err error
	switch which {
	case 0:
		out, err = d.MarshalText()
	case 1:
		out = []byte(d.String())
	default:
		out, err = d.MarshalJSON()
	}
	check(err == nil, "C06: marshalling a finite value failed")
	for i := 0; i < len(out) && i < 48; i++ {
		observe("o", uint64(out[i]))
	}
	r := checkDenotesText(out, N, L, e)
	if !r.ok {
		return
	}
	check(r.neg == neg, "C06: sign of the printed numeral differs")
	layoutChecks(r, which == 2)
	// form selection
	wantExp := adj == 100 || adj == 101 || (adj != 100 && adj != 101 && (adj < lowPos || adj > highPos))
	check(r.hasExp == wantExp, "C06: positional / exponent form chosen against the documented thresholds")
	if which == 2 {
		// RFC 8259: -? (0 | [1-9][0-9]*) (. [0-9]+)? ([eE] [+-]? [0-9]+)?
		check(r.nint == 1 || r.first != '0', "C13: JSON numbers must not have leading zeros")
	}
	reach("C06:text")
	// round trip through the real parser
	var back Decimal
	var perr error
	switch which {
	case 0:
		perr = back.UnmarshalText(out)
	case 1:
		back, perr = Parse(string(out))
	default:
		perr = back.UnmarshalJSON(out)
	}
	check(perr == nil, "C06: the produced text is rejected by the parser")
	if perr == nil {
		checkValue(back, neg, false, N, e.Int(), "C06: text round trip")
	}
	reach("C06:roundtrip")
}

func vh_c06_special(which, class int) {
	d := ndClass("d", class)
	if class == 0 {
		// zeros of any exponent
		assume(d.IsZero())
	}
	var out []byte
	var err error
	switch which {
	case 0:
		out, err = d.MarshalText()
	case 1:
		out = []byte(d.String())
	default:
		out, err = d.MarshalJSON()
	}
	if class == 0 {
		check(err == nil, "C06: marshalling zero failed")
		r := refNumeral(out)
		check(r.ok && r.mant.IsZero() && r.neg == d.Signbit(), "C06: a zero must print as a (signed) zero numeral")
		var back Decimal
		var perr error
		if which == 2 {
			perr = back.UnmarshalJSON(out)
		} else {
			perr = back.UnmarshalText(out)
		}
		check(perr == nil && back.IsZero() && !back.isSpecial() && back.Signbit() == d.Signbit(), "C06: zero does not round-trip with its sign")
		reach("C06:zero")
		return
	}
	if which == 2 {
		_, isUV := err.(*json.UnsupportedValueError)
		check(err != nil && isUV, "C13: NaN and Inf must fail with *json.UnsupportedValueError")
		reach("C13:unsupported")
		return
	}
	check(err == nil, "C06: marshalling a special value failed")
	switch class {
	case 1:
		check(string(out) == "+Inf", "C06: +Inf must print as +Inf")
	case 2:
		check(string(out) == "-Inf", "C06: -Inf must print as -Inf")
	default:
		check(string(out) == "NaN", "C06: NaN must print as NaN")
	}
	var back Decimal
	perr := back.UnmarshalText(out)
	check(perr == nil && ((class == 3 && back.IsNaN()) || (class != 3 && back == inf(class == 2))), "C06: special value does not round-trip")
	reach("C06:special")
}
