package decimal128

// Shared helpers for the arithmetic harnesses: symbolic operands, the cut accessors (symbolic runs),
// and an exact big-integer reference rounding used natively (replay / translator validation).

const (
	emin = minUnbiasedExponent // -6176
	emax = maxUnbiasedExponent // 6111
)

// cut accessors: intercepted in symbolic runs (engine/cuts.py); natively there is no cut.
func verifSymbolic() bool     { return false }
func cutCount() int           { return -1 }
func cutN(i int) Z            { return zi(0) }
func cutExp(i int) int16      { return 0 }
func cutT(i int) int8         { return 0 }
func cutNeg(i int) bool       { return false }
func cutMode(i int) RoundingMode { return 0 }
func cutRS(i int) uint128     { return uint128{} }
func cutRExp(i int) int16     { return 0 }

func ndDecimal(name string) Decimal { return Decimal{nondetU64(name + "lo"), nondetU64(name + "hi")} }

func ndFinite(name string) Decimal {
	d := ndDecimal(name)
	assume(!d.isSpecial())
	return d
}

func ndMode(name string) RoundingMode {
	m := RoundingMode(nondetU8(name))
	assume(m <= ToPositiveInf)
	return m
}

func zsigned(neg bool, v Z) Z {
	if neg {
		return v.Neg()
	}
	return v
}

func observeDec(name string, d Decimal) {
	observe(name+".lo", d.lo)
	observe(name+".hi", d.hi)
}

// packCut is what a caller must return for the rounding kernel's (fresh) result i.
func packCut(i int) Decimal {
	if cutRExp(i) > maxBiasedExponent {
		return inf(cutNeg(i))
	}
	return compose(cutNeg(i), cutRS(i), cutRExp(i))
}

// checkDenotes: (-1)^neg * (N + t*eps) * 10^delta  ==  S   (S signed and non-zero, delta concrete)
func checkDenotes(S Z, N Z, t int8, neg bool, delta int, what string) {
	check(!S.IsZero(), what+": rounding kernel called although the exact result is zero")
	check(neg == S.Lt(zi(0)), what+": sign handed to the rounding kernel is not the sign of the exact result")
	a := S.Abs()
	var lo, mid, hi, x Z
	if delta >= 0 {
		u := zpow10(delta)
		mid = N.Mul(u)
		lo = mid.Sub(u)
		hi = mid.Add(u)
		x = a
	} else {
		mid = N
		lo = N.Sub(zi(1))
		hi = N.Add(zi(1))
		x = a.Mul(zpow10(-delta))
	}
	ok := (t == 0 && x.Eq(mid)) || (t == 1 && x.Gt(mid) && x.Lt(hi)) || (t == -1 && x.Gt(lo) && x.Lt(mid))
	check(ok, what+": value handed to the rounding kernel is not the exact result")
}

// ---------------------------------------------------------------- native reference (concrete runs only)

// refRound rounds the exact value (-1)^neg * (S + sticky*eps) * 10^E into the format.
func refRound(neg bool, S Z, E int, sticky int8, mode RoundingMode) (isInf bool, c Z, e int) {
	if S.IsZero() {
		return false, zi(0), 0
	}
	k := 0
	for S.Div(zpow10(k)).Gt(zMAX()) {
		k++
	}
	if E+k < emin {
		k = emin - E
	}
	if k <= 0 {
		c, e = S, E
		for e > emax {
			c = c.Mul(zi(10))
			e--
			if c.Gt(zMAX()) {
				return true, zi(0), 0
			}
		}
		return false, c, e
	}
	D := zpow10(k)
	q := S.Div(D)
	r := S.Mod(D)
	if S.Lt(zpow10(k-1)) && E+k == emin {
		return false, zi(0), emin
	}
	X := r.Mul(zi(4)).Add(zi(int64(sticky)))
	delta := specDelta(X, D.Mul(zi(2)), q, neg, mode)
	c = q.Add(zi(int64(delta)))
	e = E + k
	if delta == -1 && q.Eq(z2p110()) && e-1 >= emin {
		c, e = zMAX(), e-1
	}
	if c.Eq(zMAX1()) {
		c, e = z2p110(), e+1
	}
	if e > emax {
		return true, zi(0), 0
	}
	return false, c, e
}

// checkValue: res must be the Decimal with the given class/sign/value (any cohort member).
func checkValue(res Decimal, neg bool, isInf bool, c Z, e int, what string) {
	if isInf {
		check(res.isInf() && !res.IsNaN() && res.Signbit() == neg, what+": expected an infinity of the exact result's sign")
		return
	}
	check(!res.isSpecial(), what+": result is Inf/NaN but the correctly rounded value is finite")
	if res.isSpecial() {
		return
	}
	check(res.Signbit() == neg, what+": wrong sign")
	rs, rexp := res.decompose()
	re := int(rexp) - exponentBias
	R := z128(rs)
	if c.IsZero() {
		check(R.IsZero(), what+": result is not the correctly rounded value (zero expected)")
		return
	}
	if re == e {
		check(R.Eq(c), what+": result is not the correctly rounded value")
		return
	}
	dd := concretize(re - e)
	if dd >= 0 {
		check(R.Mul(zpow10(dd)).Eq(c), what+": result is not the correctly rounded value")
	} else {
		check(R.Eq(c.Mul(zpow10(-dd))), what+": result is not the correctly rounded value")
	}
}
