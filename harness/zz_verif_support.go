package decimal128

// Support code for the verification harnesses (injected by overlay; never part of /repo).
//
// Symbolically every function below is intercepted by the executor (engine/intrinsics.py).
// Natively the same functions read a replay file, so each harness doubles as the replay test
// for a solver counterexample.

import (
	"fmt"
	"math/big"
)

type verifAssumeFailed struct{}

var (
	verifReplay   = map[string]string{}
	verifCounts   = map[string]int{}
	verifFailures []string
	verifReached  []string
	verifObserved []string
)

func verifReset(inputs map[string]string) {
	verifReplay = inputs
	verifCounts = map[string]int{}
	verifFailures = nil
	verifReached = nil
	verifObserved = nil
}

func nondetBig(name string) *big.Int {
	k := verifCounts[name]
	verifCounts[name] = k + 1
	if k > 0 {
		name = fmt.Sprintf("%s#%d", name, k)
	}
	v := new(big.Int)
	if s, ok := verifReplay[name]; ok {
		if s == "true" {
			v.SetInt64(1)
		} else if s != "false" {
			v.SetString(s, 10)
		}
	}
	return v
}

func nondetU64(name string) uint64 { return nondetBig(name).Uint64() }
func nondetU32(name string) uint32 { return uint32(nondetBig(name).Uint64()) }
func nondetU16(name string) uint16 { return uint16(nondetBig(name).Uint64()) }
func nondetU8(name string) uint8   { return uint8(nondetBig(name).Uint64()) }
func nondetByte(name string) byte  { return byte(nondetBig(name).Uint64()) }
func nondetUint(name string) uint  { return uint(nondetBig(name).Uint64()) }
func nondetI64(name string) int64  { return nondetBig(name).Int64() }
func nondetI32(name string) int32  { return int32(nondetBig(name).Int64()) }
func nondetI16(name string) int16  { return int16(nondetBig(name).Int64()) }
func nondetI8(name string) int8    { return int8(nondetBig(name).Int64()) }
func nondetInt(name string) int    { return int(nondetBig(name).Int64()) }
func nondetBool(name string) bool  { return nondetBig(name).Sign() != 0 }

// nondetZ: an arbitrary integer in [0, 2^bits)
func nondetZ(name string, bits int) Z { return Z{nondetBig(name)} }

func assume(c bool) {
	if !c {
		panic(verifAssumeFailed{})
	}
}

func check(c bool, msg string) {
	if !c {
		verifFailures = append(verifFailures, msg)
	}
}

func reach(msg string) { verifReached = append(verifReached, msg) }

// observe records an output of the code under test (compared between the SSA interpreter and the
// native build by the translator validation; ignored in symbolic runs).
func observe(name string, v uint64) {
	verifObserved = append(verifObserved, fmt.Sprintf("%s=%d", name, v))
}

func observeBool(name string, v bool) {
	verifObserved = append(verifObserved, fmt.Sprintf("%s=%v", name, v))
}

func loopBound(n int) {}

func concretize(x int) int { return x }

// expectPanic runs f and reports whether it panicked.
func expectPanic(f func()) (p bool) {
	defer func() {
		if r := recover(); r != nil {
			if _, ok := r.(verifAssumeFailed); ok {
				panic(r)
			}
			p = true
		}
	}()
	f()
	return false
}

// Z is a mathematical integer (specifications only).
type Z struct{ v *big.Int }

func (a Z) b() *big.Int {
	if a.v == nil {
		return new(big.Int)
	}
	return a.v
}

func zi(x int64) Z  { return Z{big.NewInt(x)} }
func zu(x uint64) Z { return Z{new(big.Int).SetUint64(x)} }

func zlimbs(l []uint64) Z {
	r := new(big.Int)
	for i := len(l) - 1; i >= 0; i-- {
		r.Lsh(r, 64)
		r.Or(r, new(big.Int).SetUint64(l[i]))
	}
	return Z{r}
}

func z128(n uint128) Z { return zlimbs(n[:]) }
func z192(n uint192) Z { return zlimbs(n[:]) }
func z256(n uint256) Z { return zlimbs(n[:]) }
func z384(n uint384) Z { return zlimbs(n[:]) }

func zpow10(k int) Z { return Z{new(big.Int).Exp(big.NewInt(10), big.NewInt(int64(k)), nil)} }
func zpow2(k int) Z  { return Z{new(big.Int).Lsh(big.NewInt(1), uint(k))} }

func zite(c bool, a, b Z) Z {
	if c {
		return a
	}
	return b
}

func (a Z) Add(o Z) Z { return Z{new(big.Int).Add(a.b(), o.b())} }
func (a Z) Sub(o Z) Z { return Z{new(big.Int).Sub(a.b(), o.b())} }
func (a Z) Mul(o Z) Z { return Z{new(big.Int).Mul(a.b(), o.b())} }
func (a Z) Neg() Z    { return Z{new(big.Int).Neg(a.b())} }
func (a Z) Abs() Z    { return Z{new(big.Int).Abs(a.b())} }

// Div and Mod are floor division / modulus by a positive divisor.
func (a Z) Div(o Z) Z {
	if o.b().Sign() <= 0 {
		panic("Z.Div by non-positive value")
	}
	q, m := new(big.Int).DivMod(a.b(), o.b(), new(big.Int))
	_ = m
	return Z{q}
}

func (a Z) Mod(o Z) Z {
	if o.b().Sign() <= 0 {
		panic("Z.Mod by non-positive value")
	}
	return Z{new(big.Int).Mod(a.b(), o.b())}
}

func (a Z) Lt(o Z) bool  { return a.b().Cmp(o.b()) < 0 }
func (a Z) Le(o Z) bool  { return a.b().Cmp(o.b()) <= 0 }
func (a Z) Gt(o Z) bool  { return a.b().Cmp(o.b()) > 0 }
func (a Z) Ge(o Z) bool  { return a.b().Cmp(o.b()) >= 0 }
func (a Z) Eq(o Z) bool  { return a.b().Cmp(o.b()) == 0 }
func (a Z) Ne(o Z) bool  { return a.b().Cmp(o.b()) != 0 }
func (a Z) IsZero() bool { return a.b().Sign() == 0 }

func (a Z) wrapped(bits uint) *big.Int {
	m := new(big.Int).Lsh(big.NewInt(1), bits)
	return new(big.Int).Mod(a.b(), m)
}

func (a Z) U64() uint64 { return a.wrapped(64).Uint64() }
func (a Z) I64() int64  { return int64(a.wrapped(64).Uint64()) }
func (a Z) Int() int    { return int(a.I64()) }

func (a Z) limbs(n int) []uint64 {
	w := a.wrapped(uint(64 * n))
	out := make([]uint64, n)
	mask := new(big.Int).SetUint64(^uint64(0))
	for i := 0; i < n; i++ {
		out[i] = new(big.Int).And(w, mask).Uint64()
		w.Rsh(w, 64)
	}
	return out
}

func (a Z) To128() (r uint128) { copy(r[:], a.limbs(2)); return }
func (a Z) To192() (r uint192) { copy(r[:], a.limbs(3)); return }
func (a Z) To256() (r uint256) { copy(r[:], a.limbs(4)); return }
func (a Z) To384() (r uint384) { copy(r[:], a.limbs(6)); return }

func (a Z) String() string { return a.b().String() }
