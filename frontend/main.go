// ssa2json: load /repo's current working tree (plus overlay harness files) with
// go/packages, build go/ssa with generics instantiated, and dump every function of the
// package under test (and the function bodies of selected dependency packages) as JSON
// for the Python symbolic executor.
package main

import (
	"encoding/json"
	"flag"
	"fmt"
	"go/constant"
	"go/token"
	"go/types"
	"os"
	"path/filepath"
	"sort"
	"strings"

	"golang.org/x/tools/go/packages"
	"golang.org/x/tools/go/ssa"
	"golang.org/x/tools/go/ssa/ssautil"
)

type J = map[string]any

var (
	typeIDs   = map[string]int{}
	typeTable []J
	typeObjs  []types.Type
)

func tid(t types.Type) int {
	if t == nil {
		return -1
	}
	key := types.TypeString(t, nil)
	if id, ok := typeIDs[key]; ok {
		return id
	}
	id := len(typeTable)
	typeIDs[key] = id
	typeTable = append(typeTable, nil)
	typeObjs = append(typeObjs, t)
	dd := descType(t, key)
	typeTable[id] = dd
	return id
}

func descType(t types.Type, key string) J {
	d := J{"s": key}
	if n, ok := t.(*types.Named); ok {
		d["named"] = n.Obj().Name()
		if n.Obj().Pkg() != nil {
			d["pkg"] = n.Obj().Pkg().Path()
		}
	}
	if _, ok := t.(*types.TypeParam); ok {
		d["k"] = "typeparam"
		return d
	}
	switch u := t.Underlying().(type) {
	case *types.Basic:
		info := u.Info()
		switch {
		case info&types.IsBoolean != 0:
			d["k"] = "bool"
		case info&types.IsInteger != 0:
			d["k"] = "int"
			sz := 64
			switch u.Kind() {
			case types.Int8, types.Uint8:
				sz = 8
			case types.Int16, types.Uint16:
				sz = 16
			case types.Int32, types.Uint32:
				sz = 32
			}
			d["bits"] = sz
			d["signed"] = info&types.IsUnsigned == 0
			if u.Kind() == types.UntypedInt || u.Kind() == types.UntypedRune {
				d["untyped"] = true
			}
		case info&types.IsFloat != 0:
			d["k"] = "float"
			if u.Kind() == types.Float32 {
				d["bits"] = 32
			} else {
				d["bits"] = 64
			}
		case info&types.IsString != 0:
			d["k"] = "string"
		case u.Kind() == types.UnsafePointer:
			d["k"] = "unsafeptr"
		case u.Kind() == types.UntypedNil:
			d["k"] = "nil"
		default:
			d["k"] = "basic"
		}
	case *types.Pointer:
		d["k"] = "ptr"
		d["elem"] = tid(u.Elem())
	case *types.Array:
		d["k"] = "array"
		d["len"] = u.Len()
		d["elem"] = tid(u.Elem())
	case *types.Slice:
		d["k"] = "slice"
		d["elem"] = tid(u.Elem())
	case *types.Struct:
		d["k"] = "struct"
		var fs []J
		for i := 0; i < u.NumFields(); i++ {
			fs = append(fs, J{"n": u.Field(i).Name(), "t": tid(u.Field(i).Type())})
		}
		d["fields"] = fs
	case *types.Tuple:
		d["k"] = "tuple"
		var fs []int
		for i := 0; i < u.Len(); i++ {
			fs = append(fs, tid(u.At(i).Type()))
		}
		d["elems"] = fs
	case *types.Interface:
		d["k"] = "iface"
	case *types.Signature:
		d["k"] = "func"
	case *types.Map:
		d["k"] = "map"
	case *types.Chan:
		d["k"] = "chan"
	default:
		d["k"] = "other"
	}
	return d
}

func funcName(f *ssa.Function) string {
	return f.String()
}

func operand(v ssa.Value) J {
	switch x := v.(type) {
	case nil:
		return nil
	case *ssa.Const:
		d := J{"k": "c", "t": tid(x.Type())}
		if x.Value == nil {
			d["nil"] = true
			return d
		}
		switch x.Value.Kind() {
		case constant.Bool:
			d["v"] = constant.BoolVal(x.Value)
		case constant.Int:
			d["v"] = x.Value.ExactString()
		case constant.String:
			s := constant.StringVal(x.Value)
			b := []byte(s)
			ints := make([]int, len(b))
			for i, c := range b {
				ints[i] = int(c)
			}
			d["bytes"] = ints
		case constant.Float:
			d["v"] = x.Value.ExactString()
			d["float"] = true
			f, _ := constant.Float64Val(x.Value)
			d["f64"] = fmt.Sprintf("%b", f)
		default:
			d["v"] = x.Value.ExactString()
		}
		return d
	case *ssa.Global:
		return J{"k": "g", "n": x.String(), "t": tid(x.Type())}
	case *ssa.Function:
		return J{"k": "f", "n": funcName(x), "t": tid(x.Type())}
	case *ssa.Builtin:
		return J{"k": "b", "n": x.Name()}
	default:
		return J{"k": "v", "n": v.Name(), "t": tid(v.Type())}
	}
}

func operands(vs []ssa.Value) []J {
	out := make([]J, len(vs))
	for i, v := range vs {
		out[i] = operand(v)
	}
	return out
}

func dumpCall(c *ssa.CallCommon, d J) {
	d["args"] = operands(c.Args)
	if c.IsInvoke() {
		d["invoke"] = c.Method.Name()
		d["recv"] = operand(c.Value)
		d["recvt"] = tid(c.Value.Type())
	} else {
		d["fn"] = operand(c.Value)
	}
}

var fset *token.FileSet

func dumpInstr(ins ssa.Instruction) J {
	d := J{}
	if v, ok := ins.(ssa.Value); ok {
		d["n"] = v.Name()
		d["t"] = tid(v.Type())
	}
	if p := ins.Pos(); p.IsValid() {
		pos := fset.Position(p)
		d["pos"] = fmt.Sprintf("%s:%d", filepath.Base(pos.Filename), pos.Line)
	}
	switch x := ins.(type) {
	case *ssa.Alloc:
		d["op"] = "Alloc"
		d["heap"] = x.Heap
		d["comment"] = x.Comment
		d["elem"] = tid(x.Type().Underlying().(*types.Pointer).Elem())
	case *ssa.BinOp:
		d["op"] = "BinOp"
		d["bop"] = x.Op.String()
		d["x"] = operand(x.X)
		d["y"] = operand(x.Y)
	case *ssa.UnOp:
		d["op"] = "UnOp"
		d["uop"] = x.Op.String()
		d["x"] = operand(x.X)
		d["commaok"] = x.CommaOk
	case *ssa.Call:
		d["op"] = "Call"
		dumpCall(&x.Call, d)
	case *ssa.Defer:
		d["op"] = "Defer"
		dumpCall(&x.Call, d)
	case *ssa.Go:
		d["op"] = "Go"
		dumpCall(&x.Call, d)
	case *ssa.ChangeInterface:
		d["op"] = "ChangeInterface"
		d["x"] = operand(x.X)
	case *ssa.ChangeType:
		d["op"] = "ChangeType"
		d["x"] = operand(x.X)
	case *ssa.Convert:
		d["op"] = "Convert"
		d["x"] = operand(x.X)
	case *ssa.MultiConvert:
		d["op"] = "Convert"
		d["x"] = operand(x.X)
	case *ssa.DebugRef:
		return nil
	case *ssa.Extract:
		d["op"] = "Extract"
		d["x"] = operand(x.Tuple)
		d["idx"] = x.Index
	case *ssa.Field:
		d["op"] = "Field"
		d["x"] = operand(x.X)
		d["idx"] = x.Field
	case *ssa.FieldAddr:
		d["op"] = "FieldAddr"
		d["x"] = operand(x.X)
		d["idx"] = x.Field
	case *ssa.If:
		d["op"] = "If"
		d["x"] = operand(x.Cond)
	case *ssa.Index:
		d["op"] = "Index"
		d["x"] = operand(x.X)
		d["i"] = operand(x.Index)
	case *ssa.IndexAddr:
		d["op"] = "IndexAddr"
		d["x"] = operand(x.X)
		d["i"] = operand(x.Index)
	case *ssa.Jump:
		d["op"] = "Jump"
	case *ssa.Lookup:
		d["op"] = "Lookup"
		d["x"] = operand(x.X)
		d["i"] = operand(x.Index)
		d["commaok"] = x.CommaOk
	case *ssa.MakeClosure:
		d["op"] = "MakeClosure"
		d["fn"] = operand(x.Fn)
		d["bindings"] = operands(x.Bindings)
	case *ssa.MakeInterface:
		d["op"] = "MakeInterface"
		d["x"] = operand(x.X)
		d["xt"] = tid(x.X.Type())
	case *ssa.MakeSlice:
		d["op"] = "MakeSlice"
		d["len"] = operand(x.Len)
		d["cap"] = operand(x.Cap)
	case *ssa.MakeMap:
		d["op"] = "MakeMap"
	case *ssa.MakeChan:
		d["op"] = "MakeChan"
	case *ssa.MapUpdate:
		d["op"] = "MapUpdate"
	case *ssa.Next:
		d["op"] = "Next"
		d["x"] = operand(x.Iter)
		d["isstring"] = x.IsString
	case *ssa.Range:
		d["op"] = "Range"
		d["x"] = operand(x.X)
	case *ssa.Panic:
		d["op"] = "Panic"
		d["x"] = operand(x.X)
	case *ssa.Phi:
		d["op"] = "Phi"
		d["edges"] = operands(x.Edges)
		d["comment"] = x.Comment
	case *ssa.Return:
		d["op"] = "Return"
		d["results"] = operands(x.Results)
	case *ssa.RunDefers:
		d["op"] = "RunDefers"
	case *ssa.Select:
		d["op"] = "Select"
	case *ssa.Send:
		d["op"] = "Send"
	case *ssa.Slice:
		d["op"] = "Slice"
		d["x"] = operand(x.X)
		d["low"] = operand(x.Low)
		d["high"] = operand(x.High)
		d["max"] = operand(x.Max)
	case *ssa.SliceToArrayPointer:
		d["op"] = "SliceToArrayPointer"
		d["x"] = operand(x.X)
	case *ssa.Store:
		d["op"] = "Store"
		d["addr"] = operand(x.Addr)
		d["val"] = operand(x.Val)
	case *ssa.TypeAssert:
		d["op"] = "TypeAssert"
		d["x"] = operand(x.X)
		d["asserted"] = tid(x.AssertedType)
		d["commaok"] = x.CommaOk
	default:
		d["op"] = fmt.Sprintf("Unknown:%T", ins)
	}
	return d
}

func dumpFunc(f *ssa.Function) J {
	d := J{"name": funcName(f)}
	if f.Pkg != nil {
		d["pkg"] = f.Pkg.Pkg.Path()
	}
	var params []J
	for _, p := range f.Params {
		params = append(params, J{"n": p.Name(), "t": tid(p.Type())})
	}
	d["params"] = params
	var fvs []J
	for _, p := range f.FreeVars {
		fvs = append(fvs, J{"n": p.Name(), "t": tid(p.Type())})
	}
	d["freevars"] = fvs
	if f.Signature != nil {
		res := f.Signature.Results()
		var rs []int
		for i := 0; i < res.Len(); i++ {
			rs = append(rs, tid(res.At(i).Type()))
		}
		d["results"] = rs
	}
	if f.Blocks == nil {
		d["external"] = true
		return d
	}
	var blocks []J
	for _, b := range f.Blocks {
		bd := J{"i": b.Index, "comment": b.Comment}
		var preds, succs []int
		for _, p := range b.Preds {
			preds = append(preds, p.Index)
		}
		for _, s := range b.Succs {
			succs = append(succs, s.Index)
		}
		bd["preds"] = preds
		bd["succs"] = succs
		var ins []J
		for _, in := range b.Instrs {
			if x := dumpInstr(in); x != nil {
				ins = append(ins, x)
			}
		}
		bd["instrs"] = ins
		blocks = append(blocks, bd)
	}
	d["blocks"] = blocks
	if f.Recover != nil {
		d["recover"] = f.Recover.Index
	}
	return d
}

func main() {
	dir := flag.String("dir", "/repo", "package directory")
	overlayDir := flag.String("overlay", "", "directory of harness files to inject as <dir>/<name>")
	out := flag.String("o", "-", "output file")
	tags := flag.String("tags", "verif", "build tags")
	extra := flag.String("deps", "", "comma separated dependency package paths whose function bodies are dumped too")
	flag.Parse()

	overlay := map[string][]byte{}
	if *overlayDir != "" {
		ents, err := os.ReadDir(*overlayDir)
		if err != nil {
			fmt.Fprintln(os.Stderr, err)
			os.Exit(2)
		}
		for _, e := range ents {
			if !strings.HasSuffix(e.Name(), ".go") {
				continue
			}
			b, err := os.ReadFile(filepath.Join(*overlayDir, e.Name()))
			if err != nil {
				fmt.Fprintln(os.Stderr, err)
				os.Exit(2)
			}
			overlay[filepath.Join(*dir, e.Name())] = b
		}
	}
	fset = token.NewFileSet()
	cfg := &packages.Config{
		Mode:       packages.LoadAllSyntax,
		Dir:        *dir,
		Fset:       fset,
		Overlay:    overlay,
		BuildFlags: []string{"-tags=" + *tags},
		Env:        append(os.Environ(), "GOFLAGS=-mod=mod", "GOPROXY=off", "GOSUMDB=off"),
	}
	pkgs, err := packages.Load(cfg, ".")
	if err != nil {
		fmt.Fprintln(os.Stderr, "load:", err)
		os.Exit(2)
	}
	if packages.PrintErrors(pkgs) > 0 {
		os.Exit(2)
	}
	prog, spkgs := ssautil.AllPackages(pkgs, ssa.InstantiateGenerics)
	prog.Build()
	main := spkgs[0]
	depset := map[string]bool{}
	for _, p := range strings.Split(*extra, ",") {
		if p != "" {
			depset[p] = true
		}
	}
	all := ssautil.AllFunctions(prog)
	var fns []*ssa.Function
	for f := range all {
		pkg := f.Pkg
		if pkg == nil && f.Origin() != nil {
			pkg = f.Origin().Pkg
		}
		if pkg == nil && f.Parent() != nil {
			pkg = f.Parent().Pkg
		}
		if pkg == nil {
			// wrappers/thunks/bound methods: keep those whose receiver is from the main package
			if f.Synthetic != "" && strings.Contains(f.String(), main.Pkg.Path()) {
				fns = append(fns, f)
			}
			continue
		}
		if pkg == main || depset[pkg.Pkg.Path()] {
			fns = append(fns, f)
		}
	}
	sort.Slice(fns, func(i, j int) bool { return fns[i].String() < fns[j].String() })
	var fl []J
	seen := map[string]bool{}
	for _, f := range fns {
		if seen[f.String()] {
			continue
		}
		seen[f.String()] = true
		fl = append(fl, dumpFunc(f))
	}
	// globals of the main package
	var globals []J
	for _, m := range main.Members {
		if g, ok := m.(*ssa.Global); ok {
			globals = append(globals, J{"n": g.String(), "t": tid(g.Type().Underlying().(*types.Pointer).Elem())})
		}
	}
	sort.Slice(globals, func(i, j int) bool { return globals[i]["n"].(string) < globals[j]["n"].(string) })
	// method sets: for each named type of main package, method name -> function
	methods := J{}
	for _, m := range main.Members {
		if t, ok := m.(*ssa.Type); ok {
			for _, T := range []types.Type{t.Type(), types.NewPointer(t.Type())} {
				ms := prog.MethodSets.MethodSet(T)
				mm := J{}
				for i := 0; i < ms.Len(); i++ {
					fn := prog.MethodValue(ms.At(i))
					if fn != nil {
						mm[ms.At(i).Obj().Name()] = fn.String()
						if !seen[fn.String()] && fn.Blocks != nil {
							seen[fn.String()] = true
							fl = append(fl, dumpFunc(fn))
						}
					}
				}
				methods[types.TypeString(T, nil)] = mm
			}
		}
	}
	res := J{"pkg": main.Pkg.Path(), "funcs": fl, "globals": globals, "methods": methods}
	// types last: tid() may have added entries while dumping
	res["types"] = typeTable
	var w *os.File = os.Stdout
	if *out != "-" {
		w, err = os.Create(*out)
		if err != nil {
			fmt.Fprintln(os.Stderr, err)
			os.Exit(2)
		}
		defer w.Close()
	}
	enc := json.NewEncoder(w)
	if err := enc.Encode(res); err != nil {
		fmt.Fprintln(os.Stderr, err)
		os.Exit(2)
	}
}
